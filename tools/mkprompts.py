#!/usr/bin/env python3
"""Builds the prompts of a seeding round from the previous round's prompts (out/prompts/r5_*.txt):
   same wording, new property grouping, the list of already mutated functions recomputed from
   /verif/seeded/*/m*/patch.diff. usage: mkprompts.py <round> 'C13,C15,C19' 'C14,C17,C11' ..."""
import re, sys, glob, os, collections
rnd = sys.argv[1]; groups = [g.split(',') for g in sys.argv[2:]]
blocks = {}; head = tail = None
for f in sorted(glob.glob('/verif/out/prompts/r5_*.txt')):
    s = open(f).read()
    for m in re.finditer(r'--- PROPERTY (C\d\d):.*?\n---\n', s, re.S):
        blocks[m.group(1)] = m.group(0)
    if head is None:
        head = s[:s.index('--- PROPERTY')]
        tail = s[s.index('YOUR TASK:'):]
        n = re.search(r'/tmp/wt5-(\d)', s).group(1)
        head = head.replace('/tmp/wt5-' + n, '/tmp/wt@R-@N'); tail = tail.replace('/tmp/wt5-' + n, '/tmp/wt@R-@N')
        tail = re.sub(r'one of C\d\d(/C\d\d)*', 'one of @IDS', tail)
done = collections.defaultdict(set)
# functions named in earlier prompts
s = open('/verif/out/prompts/r5_1.txt').read()
for m in re.finditer(r'^- (\S+): (.*)$', s, re.M):
    for fn in m.group(2).split(', '):
        done[m.group(1)].add(fn.strip())
for pd in glob.glob('/verif/seeded/*/m*/patch.diff'):
    cur = None
    for line in open(pd):
        if line.startswith('+++ b/'):
            cur = line[6:].strip()
        m = re.match(r'@@.*@@ func (?:\([^)]*\) )?(\w+)', line)
        if m and cur:
            done[cur].add(m.group(1))
        m = re.match(r'[-+ ]func (?:\([^)]*\) )?(\w+)', line)
        if m and cur and not line.startswith('+++'):
            done[cur].add(m.group(1))
lst = '\n'.join('- %s: %s' % (f, ', '.join(sorted(done[f]))) for f in sorted(done))
for i, g in enumerate(groups, 1):
    txt = head + '\n'.join(blocks[p] for p in g) + '\n' + \
        'Many changes were already produced by others. Functions that were ALREADY mutated (roughly, by file) - do NOT touch these again; pick OTHER functions, in these or in other files (callers, callees, constructors, adapters, helpers, cleanup and shutdown paths, error handling, config plumbing):\n' + lst + '\n\n' + tail
    txt = txt.replace('@R', rnd).replace('@N', str(i)).replace('@IDS', '/'.join(g))
    open('/verif/out/prompts/r%s_%d.txt' % (rnd, i), 'w').write(txt)
    print(i, g, len(txt))
