#!/usr/bin/env python3
"""imports the deliverables of a file-targeted seeding job (/tmp/wt4-<job>/seeded/m*) into out/seeded_raw/<property>/m<next>"""
import json, os, shutil, sys, re
job = sys.argv[1]
rnd = sys.argv[2] if len(sys.argv) > 2 else '4'
src = f'/tmp/wt{rnd}-{job}/seeded'
for mk in sorted(os.listdir(src)):
    d = os.path.join(src, mk)
    meta = json.load(open(os.path.join(d, 'meta.json')))
    pid = re.search(r'C\d\d', meta.get('property', '')).group(0)
    used = set()
    for base in ('/verif/seeded', '/verif/out/seeded_raw'):
        p = os.path.join(base, pid)
        if os.path.isdir(p):
            used |= {int(x[1:]) for x in os.listdir(p) if re.fullmatch(r'm\d+', x)}
    n = max(used | {7}) + 1
    dst = f'/verif/out/seeded_raw/{pid}/m{n}'
    os.makedirs(os.path.dirname(dst), exist_ok=True)
    shutil.copytree(d, dst)
    # rename the demo file to the index it now has, and fix meta
    for f in os.listdir(dst):
        if f.startswith('zz_demo_') and f.endswith('_test.go'):
            nf = f'zz_demo_m{n}_test.go'
            if nf != f:
                os.rename(os.path.join(dst, f), os.path.join(dst, nf))
    meta['property'] = pid
    meta['origin'] = f'round {rnd} job {job} {mk}'
    if 'demo_run' in meta:
        meta['demo_run'] = re.sub(r'zz_demo_m\d+_test', f'zz_demo_m{n}_test', meta['demo_run'])
    json.dump(meta, open(os.path.join(dst, 'meta.json'), 'w'), indent=1)
    print(job, mk, '->', pid, f'm{n}')
