#!/usr/bin/env python3
"""Must-fail corpus: applies every confirmed seeded change (/verif/seeded/<id>/<mk>/patch.diff) to a
scratch worktree of /repo and runs the quick checks of the properties whose packages it touches
(GOVC_REPO points the engine at the worktree; /repo itself is never modified). Records which checks
report a violation. usage: selftest.py [--all-props] [C13 C14/m2 ...]"""
import json, os, subprocess, sys, shutil, time

WT = '/tmp/wt-selftest'
OUT = '/tmp/govc-selftest-out'
ENV = dict(os.environ, GOVC_REPO=WT, GOVC_OUT=OUT, GOFLAGS='-mod=mod', GOPROXY='off', GOSUMDB='off', GOTOOLCHAIN='local')

def sh(cmd, cwd=None, env=None, timeout=1800):
    p = subprocess.run(cmd, shell=True, cwd=cwd, env=env or os.environ, capture_output=True, text=True, timeout=timeout)
    return p.returncode, p.stdout + p.stderr

def main():
    args = [a for a in sys.argv[1:] if not a.startswith('--')]
    allprops = '--all-props' in sys.argv
    props = json.load(open('/verif/props.json'))
    claimed = [c['property_id'] for c in json.load(open('/verif/MANIFEST.json'))['checks']]
    if os.path.isdir(WT):
        sh(f'git -C /repo worktree remove --force {WT}')
    rc, out = sh(f'git -C /repo worktree add --detach {WT} HEAD')
    if rc != 0:
        print(out); sys.exit(2)
    results_path = '/verif/seeded/RESULTS.json'
    results = json.load(open(results_path)) if os.path.exists(results_path) else {}
    try:
        muts = []
        for pid in sorted(os.listdir('/verif/seeded')):
            d = os.path.join('/verif/seeded', pid)
            if not os.path.isdir(d):
                continue
            for mk in sorted(os.listdir(d)):
                if args and pid not in args and f'{pid}/{mk}' not in args:
                    continue
                if os.path.exists(os.path.join(d, mk, 'patch.diff')):
                    muts.append((pid, mk))
        for pid, mk in muts:
            d = os.path.join('/verif/seeded', pid, mk)
            meta = json.load(open(os.path.join(d, 'meta.json')))
            sh('git checkout -q -- . && git clean -fdq', cwd=WT)
            rc, out = sh(f'git apply {d}/patch.diff', cwd=WT)
            if rc != 0:
                results[f'{pid}/{mk}'] = {'error': 'patch does not apply to HEAD: ' + out[-200:]}
                print(pid, mk, 'PATCH DOES NOT APPLY'); continue
            touched = set('./' + t for t in meta.get('touched_packages', []))
            torun = []
            for p in claimed:
                pk = set(props.get(p, {}).get('packages', []))
                if allprops or p == pid or (pk & touched):
                    torun.append(p)
            caught, undecided, clean = [], [], []
            t0 = time.time()
            from concurrent.futures import ThreadPoolExecutor
            def runp(p):
                e = dict(ENV, GOVC_OUT=OUT + '/' + p)
                return p, sh(f'/verif/bin/govc check --property {p} --tier quick', env=e)
            with ThreadPoolExecutor(max_workers=3) as ex:
                outs = list(ex.map(runp, torun))
            for p, (rc, out) in outs:
                viol = [l for l in out.split('\n') if l.startswith('VIOLATION')]
                und = [l for l in out.split('\n') if l.startswith('UNDECIDED')]
                if viol:
                    caught.append({'check': p, 'obligations': [v.split('replay=')[1].split()[0].split('/')[-1].replace('.json', '') for v in viol][:6],
                                   'confirmed_by_replay': sum(1 for v in viol if 'no-failing-input-found' not in v)})
                elif und or rc != 0:
                    undecided.append({'check': p, 'why': (und[0] if und else out[-200:])[:300]})
                else:
                    clean.append(p)
            results[f'{pid}/{mk}'] = {'breaks': meta.get('breaks', '')[:400], 'touched_packages': sorted(touched), 'checks_run': torun,
                                      'caught_by': caught, 'undecided': undecided, 'not_flagged_by': clean, 'head': subprocess.run('git -C /repo rev-parse --short HEAD', shell=True, capture_output=True, text=True).stdout.strip(),
                                      'wall_s': round(time.time() - t0, 1)}
            print(pid, mk, 'CAUGHT by ' + ','.join(c['check'] for c in caught) if caught else ('UNDECIDED in ' + ','.join(u['check'] for u in undecided) if undecided else 'MISSED'),
                  f'(ran {",".join(torun) or "nothing"})', flush=True)
            json.dump(results, open(results_path, 'w'), indent=1, sort_keys=True)
    finally:
        sh(f'git -C /repo worktree remove --force {WT}')
        shutil.rmtree(OUT, ignore_errors=True)

main()
