#!/usr/bin/env python3
"""Minimises the set of assertions of an SMT file that z3 (MBQI on) finds unsatisfiable."""
import sys,subprocess
f=sys.argv[1]
lines=open(f).read().split('\n')
lines=[l for l in lines if not l.startswith('(set-option :smt.mbqi') and not l.startswith('(set-option :auto_config')]
idx=[i for i,l in enumerate(lines) if l.startswith('(assert')]
def run(keepset,t=10):
    ks=set(keepset)
    out=[l for i,l in enumerate(lines) if (i not in idx or i in ks)]
    open('/tmp/core_b.smt2','w').write('\n'.join(out))
    return subprocess.run(['z3-new','-T:%d'%t,'/tmp/core_b.smt2'],capture_output=True,text=True).stdout.split('\n')[0]
keep=list(idx)
r=run(keep,30)
print('full:',r)
if r=='unsat':
    for i in list(idx):
        trial=[k for k in keep if k!=i]
        if run(trial)=='unsat':
            keep=trial
    print(len(keep))
    for k in keep: print(lines[k][:900]); print()
