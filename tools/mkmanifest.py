#!/usr/bin/env python3
"""Regenerates /verif/MANIFEST.json from /verif/claims.json (per-property text) and properties.jsonl."""
import json, subprocess
claims = json.load(open('/verif/claims.json'))
props = [json.loads(l) for l in open('/verif/properties.jsonl')]
hooks = subprocess.run(['git','-C','/repo','log','--format=%H %s'],capture_output=True,text=True).stdout.strip().split('\n')
hook_commits = [l.split()[0] for l in hooks if l.split(' ',1)[1].startswith('verif:')]
m = {
 "version": 1,
 "setup_cmd": "cd /verif/engine && GOFLAGS=-mod=mod GOPROXY=off GOSUMDB=off GOTOOLCHAIN=local go build -o /verif/bin/govc ./cmd/govc",
 "hooks": {
  "guard": "verif",
  "enable": "contract files <pkg>/zz_contracts_verif.go carry //go:build verif and contain only //@ comments; govc loads /repo with -tags=verif",
  "baseline_off_cmd": "cd /repo && GOFLAGS=-mod=mod GOPROXY=off GOSUMDB=off GOTOOLCHAIN=local go test -vet=off -count=1 -timeout 25m ./...",
  "source_commits": hook_commits,
  "add_only": True
 },
 "engines": [{"name": "govc", "path": "/verif/engine", "serves_properties": sorted(claims['checks'].keys()),
   "kind_free_text": "self-written verification-condition generator over go/ssa of /repo's working tree (loop cutting at invariants, typed heap model, modular calls against contracts); contracts are //@ comments in build-tag-guarded files in /repo plus assumed contracts on dependencies in /verif/contracts/ext; one SMT query per obligation, discharged by z3 5.1.0 / z3 4.8.12 / cvc5 1.0"}],
 "checks": [],
 "notes": claims.get('notes',''),
 "not_applicable": []
}
for p in props:
    pid = p['id']
    if pid in claims['checks']:
        c = claims['checks'][pid]
        m['checks'].append({
          "property_id": pid,
          "quick_cmd": f"/verif/bin/govc check --property {pid} --tier quick",
          "thorough_cmd": f"/verif/bin/govc check --property {pid} --tier thorough",
          "evidence_file": f"/verif/evidence/{pid}.json",
          "replay_cmd_template": "/verif/bin/govc replay {path}",
          "engine": "govc",
          "level_claimed": {"category": "proof", "text": c['text'], "design_ref": c.get('design_ref', f"DESIGN.md section 6 ({pid})")},
          "level_note": c['note'],
          "technique": c.get('technique', "contract-based deductive verification: weakest-precondition VCs over go/ssa of the real code, discharged by SMT (z3/cvc5)")
        })
    else:
        m['not_applicable'].append({"property_id": pid, "reason": claims['not_applicable'].get(pid, "not claimed yet: the contracts for this property are not discharged by the engine at this commit (work in progress, see DESIGN.md)")})
json.dump(m, open('/verif/MANIFEST.json','w'), indent=1)
print("checks:", [c['property_id'] for c in m['checks']])
