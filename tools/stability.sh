#!/bin/bash
# runs every claimed quick check with several solver seeds; prints the summary line of each run
props=$(python3 -c "import json;print(' '.join(c['property_id'] for c in json.load(open('/verif/MANIFEST.json'))['checks']))")
for s in ${SEEDS:-1 2 3}; do
  for p in $props; do
    out=$(VERIF_SEED=$s /verif/bin/govc check --property $p --tier quick 2>&1)
    rc=$?
    echo "seed=$s rc=$rc $(echo "$out" | tail -1)"
    echo "$out" | grep -E "failed obligation|VIOLATION|UNDECIDED" | cut -c1-220
  done
done
