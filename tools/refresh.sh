#!/bin/bash
# regenerates MANIFEST.json and rewrites every evidence file from a run on the clean working tree of /repo
set -e
if [ -n "$(git -C /repo status --porcelain)" ]; then echo "refusing: /repo working tree is not clean"; git -C /repo status --short; exit 2; fi
python3 /verif/tools/mkmanifest.py
rc=0
for p in $(python3 -c "import json;print(' '.join(c['property_id'] for c in json.load(open('/verif/MANIFEST.json'))['checks']))"); do
  out=$(/verif/bin/govc check --property $p --tier quick 2>&1) || { rc=1; echo "FAILED $p"; echo "$out" | tail -5; }
  echo "$out" | tail -1
done
python3-vt - <<'PY'
import json,glob,jsonschema
s=json.load(open('/root/.vp/EVIDENCE.schema.json'))
m=json.load(open('/verif/MANIFEST.json'))
jsonschema.validate(m,json.load(open('/root/.vp/MANIFEST.schema.json')))
for c in m['checks']:
    e=json.load(open(c['evidence_file']))
    jsonschema.validate(e,s)
    cov=e['coverage']
    assert cov['obligations']==cov['discharged']+cov.get('known_finding_obligations',0) or cov['obligations']==cov['discharged'], (c['property_id'],cov['obligations'],cov['discharged'])
print("manifest and evidence valid")
PY
exit $rc
