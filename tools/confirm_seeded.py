#!/usr/bin/env python3
"""Confirms raw seeded mutants (out/seeded_raw/<id>/<mk>) in a scratch worktree of /repo:
   with the patch the demonstration test fails and the existing tests of the touched packages pass;
   without the patch the demonstration passes. Confirmed mutants are copied to /verif/seeded/<id>/<mk>/.
   usage: confirm_seeded.py [C13 C14 ...]"""
import json, os, subprocess, sys, shutil, re, glob

RAW = '/verif/out/seeded_raw'
OUT = '/verif/seeded'
WT = '/tmp/wt-confirm'
ENV = dict(os.environ, GOFLAGS='-mod=mod', GOPROXY='off', GOSUMDB='off', GOTOOLCHAIN='local')

def sh(cmd, cwd=None, timeout=1500):
    p = subprocess.run(cmd, shell=True, cwd=cwd, env=ENV, capture_output=True, text=True, timeout=timeout)
    return p.returncode, (p.stdout + p.stderr)

def reset():
    sh('git checkout -q -- . && git clean -fdq', cwd=WT)

def main():
    ids = sys.argv[1:] or sorted(os.listdir(RAW))
    if not os.path.isdir(WT):
        rc, out = sh(f'git -C /repo worktree add --detach {WT} HEAD')
        if rc != 0:
            print(out); sys.exit(2)
    else:
        sh('git checkout -q --detach ' + subprocess.run('git -C /repo rev-parse HEAD', shell=True, capture_output=True, text=True).stdout.strip(), cwd=WT)
    shutil.copy('/repo/go.mod', '/tmp/wt-confirm.go.mod'); shutil.copy('/repo/go.sum', '/tmp/wt-confirm.go.sum')
    for pid in ids:
        for mk in sorted(os.listdir(os.path.join(RAW, pid))):
            d = os.path.join(RAW, pid, mk)
            if not os.path.exists(os.path.join(d, 'patch.diff')):
                continue
            dest = os.path.join(OUT, pid, mk)
            if os.path.exists(os.path.join(dest, 'meta.json')):
                print(pid, mk, 'already confirmed'); continue
            meta = json.load(open(os.path.join(d, 'meta.json')))
            demos = [f for f in os.listdir(d) if f.endswith('_test.go')]
            res = {'property': pid, 'mutant': mk}
            reset()
            rc, out = sh(f'git apply {d}/patch.diff', cwd=WT)
            if rc != 0:
                res['status'] = 'patch does not apply: ' + out[-300:]
                print(pid, mk, res['status']); continue
            rc, out = sh('git diff --name-only', cwd=WT)
            touched = sorted(set(os.path.dirname(f) for f in out.split() if f.endswith('.go')))
            pkgdir = meta.get('demo_pkg_dir') or (touched[0] if touched else '.')
            m = re.search(r'-run\s+(\S+)', meta.get('demo_run', ''))
            runpat = m.group(1) if m else 'Demo'
            mod = '-modfile=/tmp/wt-confirm.go.mod'
            # 1. existing tests of the touched packages still pass with the patch
            pk = ' '.join('./' + t for t in touched if t != 'util/iter')
            rc, out = sh(f'go test {mod} -vet=off -count=1 -timeout 20m {pk}', cwd=WT)
            res['existing_tests_with_patch'] = 'ok' if rc == 0 else 'FAIL: ' + out[-600:]
            if rc != 0:
                # one retry: port/gossip flakes
                rc, out = sh(f'go test {mod} -vet=off -count=1 -timeout 20m {pk}', cwd=WT)
                res['existing_tests_with_patch'] = 'ok (second run)' if rc == 0 else 'FAIL: ' + out[-600:]
            # 2. demo fails with the patch
            for f in demos:
                shutil.copy(os.path.join(d, f), os.path.join(WT, pkgdir, f))
            rc, out = sh(f'go test {mod} -vet=off -count=1 -timeout 10m -run {runpat} ./{pkgdir}', cwd=WT)
            res['demo_with_patch'] = 'fails' if (rc != 0 and '--- FAIL' in out) else ('build/other failure: ' + out[-400:] if rc != 0 else 'PASSES (not a demonstration)')
            res['demo_failure_excerpt'] = '\n'.join(l for l in out.split('\n') if 'FAIL' in l or 'Error' in l or 'expected' in l or 'actual' in l)[:800]
            # 3. demo passes without the patch
            sh(f'git apply -R {d}/patch.diff', cwd=WT)
            rc, out = sh(f'go test {mod} -vet=off -count=1 -timeout 10m -run {runpat} ./{pkgdir}', cwd=WT)
            res['demo_without_patch'] = 'passes' if rc == 0 else 'FAILS: ' + out[-400:]
            ok = res['existing_tests_with_patch'].startswith('ok') and res['demo_with_patch'] == 'fails' and res['demo_without_patch'] == 'passes'
            res['confirmed'] = ok
            os.makedirs('/verif/out/seeded_confirm', exist_ok=True)
            json.dump(res, open(f'/verif/out/seeded_confirm/{pid}_{mk}.json', 'w'), indent=1)
            print(pid, mk, 'CONFIRMED' if ok else 'NOT confirmed', res['existing_tests_with_patch'][:60], '|', res['demo_with_patch'][:60], '|', res['demo_without_patch'][:60], flush=True)
            if ok:
                os.makedirs(dest, exist_ok=True)
                shutil.copy(os.path.join(d, 'patch.diff'), dest)
                for f in demos:
                    shutil.copy(os.path.join(d, f), os.path.join(dest, f + '.txt'))
                meta_out = {
                    'property': pid, 'mutant': mk,
                    'breaks': meta.get('summary'), 'needs_to_manifest': meta.get('needs'),
                    'demo_pkg_dir': pkgdir, 'demo_test': runpat, 'demo_files': [f + '.txt' for f in demos],
                    'touched_packages': touched,
                    'subagent_ran': meta.get('ran'),
                    'confirmed_by_me': {
                        'worktree': WT + ' (scratch worktree of /repo HEAD, removed afterwards)',
                        'existing_tests_of_touched_packages_with_patch': res['existing_tests_with_patch'],
                        'demo_with_patch': res['demo_with_patch'], 'demo_failure_excerpt': res['demo_failure_excerpt'],
                        'demo_without_patch': res['demo_without_patch'],
                    },
                }
                json.dump(meta_out, open(os.path.join(dest, 'meta.json'), 'w'), indent=1)
    reset()

main()
