#!/bin/bash
# usage: devmut.sh <Cxx/mk> <pkg> <fn> [<pkg> <fn> ...] - development aid: applies a seeded change to the dev worktree
# (/tmp/wt-dev, with not yet committed hook files), verifies single functions with bin/govc.new, reverts the change
mut=$1; shift
WT=/tmp/wt-dev
git -C $WT apply /verif/seeded/$mut/patch.diff || exit 2
while [ $# -ge 2 ]; do
  GOVC_REPO=$WT GOVC_OUT=/tmp/govc-dev-out /verif/bin/govc.new verify -pkg "$1" -fn "$2" 2>&1 | grep -v "^loaded\|file:" | cut -c1-300
  shift 2
done
git -C $WT apply -R /verif/seeded/$mut/patch.diff
