#!/usr/bin/env python3
"""Emits the markdown table of seeded changes (seeded/RESULTS.json + meta.json) and, with --write,
replaces the block between the SEEDED-TABLE markers in DESIGN.md."""
import json, os, sys, re

res = json.load(open('/verif/seeded/RESULTS.json'))
rows = []
for pid in sorted(os.listdir('/verif/seeded')):
    d = os.path.join('/verif/seeded', pid)
    if not os.path.isdir(d):
        continue
    for mk in sorted(os.listdir(d)):
        mp = os.path.join(d, mk, 'meta.json')
        if not os.path.exists(mp):
            continue
        meta = json.load(open(mp))
        r = res.get(f'{pid}/{mk}')
        what = re.sub(r'\s+', ' ', meta.get('breaks') or '')
        what = what.split(': ', 1)[-1] if len(what) > 150 else what
        what = (what[:150] + '…') if len(what) > 150 else what
        if not r:
            verdict = 'not run yet'
        elif r.get('error'):
            verdict = r['error'][:60]
        elif r['caught_by']:
            parts = []
            for c in r['caught_by']:
                ob = c['obligations'][0] if c['obligations'] else ''
                ob = re.sub(r'^\d+_', '', ob)
                parts.append(f"{c['check']}" + (' (replayed)' if c.get('confirmed_by_replay') else ''))
            first = r['caught_by'][0]['obligations'][0] if r['caught_by'][0]['obligations'] else ''
            first = re.sub(r'^\d+_', '', first).replace('__', ' ').replace('_', '.')[:70]
            verdict = '**caught** by ' + ', '.join(parts) + f' — `{first}`'
        elif r['undecided']:
            verdict = 'UNDECIDED (exit 2): ' + re.sub(r'\s+', ' ', r['undecided'][0]['why'])[:110]
        else:
            verdict = '**missed**'
        files = ', '.join(sorted(set(meta.get('touched_packages', []))))
        rows.append(f"| {pid}/{mk} | {files} | {what} | {verdict} |")

n = len(rows)
caught = sum('**caught**' in r for r in rows)
und = sum('UNDECIDED' in r for r in rows)
missed = sum('**missed**' in r for r in rows)
out = [f"{n} seeded changes: {caught} reported as VIOLATION by at least one check, {und} left UNDECIDED (the change introduced a new helper with a loop and no contract: the check exits 2 without a verdict), {missed} missed, {n-caught-und-missed} not run.",
       "", "| change | packages | what it does | verdict of the quick checks |", "|---|---|---|---|"] + rows
text = '\n'.join(out)
if '--write' in sys.argv:
    s = open('/verif/DESIGN.md').read()
    if 'SEEDED_TABLE_PLACEHOLDER' in s:
        s = s.replace('SEEDED_TABLE_PLACEHOLDER', '<!-- SEEDED-TABLE-BEGIN -->\n' + text + '\n<!-- SEEDED-TABLE-END -->')
    else:
        s = re.sub(r'<!-- SEEDED-TABLE-BEGIN -->.*?<!-- SEEDED-TABLE-END -->', lambda m: '<!-- SEEDED-TABLE-BEGIN -->\n' + text + '\n<!-- SEEDED-TABLE-END -->', s, flags=re.S)
    open('/verif/DESIGN.md', 'w').write(s)
    print('DESIGN.md updated:', n, 'rows')
else:
    print(text)
