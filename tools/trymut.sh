#!/bin/bash
# usage: trymut.sh <Cxx/mk> <property> [more properties] - runs checks against a scratch worktree of /repo HEAD with the seeded change applied
set -e
mut=$1; shift
WT=/tmp/wt-try
git -C /repo worktree remove --force $WT 2>/dev/null || true
git -C /repo worktree add --detach $WT HEAD -q
trap "git -C /repo worktree remove --force $WT; rm -rf /tmp/govc-try-out" EXIT
git -C $WT apply /verif/seeded/$mut/patch.diff
for p in "$@"; do
  GOVC_REPO=$WT GOVC_OUT=/tmp/govc-try-out /verif/bin/govc check --property $p --tier quick 2>&1 | grep -E "VIOLATION|UNDECIDED|^$p:" | cut -c1-240
done
