package main

import (
	"os"
	"fmt"
	"go/token"
	"go/types"
	"sort"
	"strings"

	"golang.org/x/tools/go/ssa"
)

type itemKind int

const (
	itAssume itemKind = iota
	itDef
	itOblig
)

type item struct {
	kind  itemKind
	text  string
	ob    *Oblig
	group string // facts of a named group are only visible to obligations of the same group
}

// groupOf extracts the proof group of a clause tag: "[C11.down.from~mv]" -> "mv".
func groupOf(tag string) string {
	if i := strings.Index(tag, "~"); i >= 0 {
		return tag[i+1:]
	}
	return ""
}

type Oblig struct {
	Name    string
	Kind    string // post | pre | inv-init | inv-step | safe | frame | assert | cover | lemma
	Tag     string
	Fn      string
	Goal    string
	Guard   string
	Src     string
	Pos     string
	Cover   bool // satisfiability check: "unsat" is the bad answer
	seq     int
	declCut int
	fg      *FG
	// results
	Result  string
	Solver  string
	TimeS   float64
	Model   string
	RawOut  string
	File    string
}

type genErr struct{ msg string }

type inlineRet struct {
	guard   string
	results []Val
	st      *State
}

func (fg *FG) fail(f string, a ...interface{}) {
	panic(genErr{fmt.Sprintf(f, a...)})
}

type State struct {
	heaps map[string]string
}

func (s *State) clone() *State {
	n := &State{heaps: make(map[string]string, len(s.heaps))}
	for k, v := range s.heaps {
		n.heaps[k] = v
	}
	return n
}

type closureInfo struct {
	fn       *ssa.Function
	bindings []Val
}

type modEntry struct {
	loc   *Loc
	elems bool   // whole element region of a slice: arr, lo, hi
	lo, hi string
	src   string
	all   bool // family-wide (used for loops only)
}

// FG generates the verification conditions of one function.
type FG struct {
	loopHavoc map[int]map[string]bool // header block -> families havocked at the loop head
	inHavoc   bool
	loopEntrySt map[int]*State // memory state at the entry of each loop (by header block)
	snapshotCells int // interior addresses stored to memory, modelled by snapshot cells
	merges map[int]*mergeInfo
	copyOut map[ssa.Value][]copyOutInfo
	g       *Gen
	fn      *ssa.Function
	c       *Contract
	name    string
	sorts   *Sorts
	decls   []string
	declSet map[string]bool
	items   []item
	vals    map[ssa.Value]Val
	R       map[int]string            // block index -> reachability term
	edge    map[[2]int][]string       // (pred,succ) -> edge condition terms
	endSt   map[int]*State
	headSt  map[int]*State
	heapSort map[string]string
	heapTy   map[string]types.Type
	nfresh  int
	entrySt *State
	params  map[string]Val
	results []string // result names
	loopOrd map[int]int // header block index -> ordinal
	loopBlocks map[int]map[int]bool
	debugRefs []*ssa.DebugRef
	modset  []modEntry // evaluated modifies of this function (pre-state)
	alloc0  string
	defers  []*ssa.Defer
	deferBlk []int
	usedAssumed map[string]bool
	softErrs    []string
	balHead     map[int]map[string]string // loop header -> balanced family -> version assumed at the head
	beforeHit   map[string]bool // keys of 'before K assert' clauses that attached to at least one call/send
	curBlock int
	curInstr ssa.Instruction
	strLits map[string]string
	applyDecl map[string]bool
	nobl int
	curGroup string
	stepApplied map[string]int
	isLemma bool
	closures map[ssa.Value]*closureInfo
	retCount int
	pureAxiomDone map[string]bool
	ranges []*ssa.Range
	namePrefix string
	inlineEntry *State
	inlineRets  *[]inlineRet
	inlineDepth int
	ninline int
}

func newFG(g *Gen, fn *ssa.Function, c *Contract) *FG {
	fg := &FG{g: g, fn: fn, c: c, sorts: newSorts(), declSet: map[string]bool{}, vals: map[ssa.Value]Val{},
		R: map[int]string{}, edge: map[[2]int][]string{}, endSt: map[int]*State{}, headSt: map[int]*State{}, heapSort: map[string]string{}, heapTy: map[string]types.Type{},
		params: map[string]Val{}, loopOrd: map[int]int{}, loopBlocks: map[int]map[int]bool{}, usedAssumed: map[string]bool{}, beforeHit: map[string]bool{},
		strLits: map[string]string{}, applyDecl: map[string]bool{}, closures: map[ssa.Value]*closureInfo{}, pureAxiomDone: map[string]bool{}}
	if fn != nil {
		fg.name = g.keyOf(fn)
	}
	return fg
}

func (fg *FG) declare(name, sort string) {
	if fg.declSet[name] {
		return
	}
	fg.declSet[name] = true
	fg.decls = append(fg.decls, fmt.Sprintf("(declare-const %s %s)", name, sort))
}

func (fg *FG) declareFun(name string, args []string, ret string) {
	if fg.declSet[name] {
		return
	}
	fg.declSet[name] = true
	fg.decls = append(fg.decls, fmt.Sprintf("(declare-fun %s (%s) %s)", name, strings.Join(args, " "), ret))
}

func (fg *FG) fresh(prefix, sort string) string {
	fg.nfresh++
	n := fmt.Sprintf("%s!%d", prefix, fg.nfresh)
	fg.declare(n, sort)
	return n
}

func (fg *FG) assume(f string) {
	if f == "" || f == "true" {
		return
	}
	fg.items = append(fg.items, item{kind: itAssume, text: "(assert " + f + ")", group: fg.curGroup})
}

// define introduces a named constant equal to term (keeps queries readable and terms small).
func (fg *FG) define(prefix, sort, term string) string {
	fg.nfresh++
	n := fmt.Sprintf("%s!%d", prefix, fg.nfresh)
	fg.declare(n, sort)
	fg.items = append(fg.items, item{kind: itDef, text: fmt.Sprintf("(assert (= %s %s))", n, term)})
	return n
}

func (fg *FG) oblig(kind, name, tag, guard, goal, src, pos string) *Oblig {
	parts := splitGoal(goal)
	var last *Oblig
	for i, g := range parts {
		nm := name
		if len(parts) > 1 {
			nm = fmt.Sprintf("%s/%d", name, i)
		}
		last = fg.oblig1(kind, nm, tag, guard, g, src, pos)
	}
	return last
}

// splitGoal splits top-level conjunctions (also under implications) into separate goals.
func splitGoal(goal string) []string {
	if len(goal) > 200000 {
		return []string{goal}
	}
	n := parseSx(goal)
	if n == nil {
		return []string{goal}
	}
	var out []string
	var rec func(n *sx, hyps []string)
	rec = func(n *sx, hyps []string) {
		h := n.head()
		if h == "and" && len(n.kids) > 1 {
			for _, k := range n.kids[1:] {
				rec(k, hyps)
			}
			return
		}
		if h == "=>" && len(n.kids) == 3 {
			rec(n.kids[2], append(append([]string{}, hyps...), n.kids[1].String()))
			return
		}
		g := n.String()
		for i := len(hyps) - 1; i >= 0; i-- {
			g = fmt.Sprintf("(=> %s %s)", hyps[i], g)
		}
		out = append(out, g)
	}
	rec(n, nil)
	if len(out) == 0 || len(out) > 24 {
		return []string{goal}
	}
	return out
}

func (fg *FG) oblig1(kind, name, tag, guard, goal, src, pos string) *Oblig {
	fg.nobl++
	o := &Oblig{Name: name, Kind: kind, Tag: tag, Fn: fg.name, Goal: goal, Guard: guard, Src: src, Pos: pos, seq: len(fg.items), fg: fg}
	fg.items = append(fg.items, item{kind: itOblig, ob: o})
	// after being checked, the fact may be used by later obligations
	if kind != "cover" {
		fg.items = append(fg.items, item{kind: itAssume, text: fmt.Sprintf("(assert (=> %s %s))", guard, goal), group: groupOf(tag)})
	}
	return o
}

func (fg *FG) cover(name, cond string) {
	fg.nobl++
	o := &Oblig{Name: name, Kind: "cover", Fn: fg.name, Goal: cond, Guard: "true", Cover: true, seq: len(fg.items), fg: fg}
	fg.items = append(fg.items, item{kind: itOblig, ob: o})
}

func (fg *FG) posOf(p token.Pos) string {
	if !p.IsValid() {
		return ""
	}
	pp := fg.g.fset.Position(p)
	return fmt.Sprintf("%s:%d", pp.Filename, pp.Line)
}

// ---------- heaps ----------

func (fg *FG) heap(st *State, family, sort string) string {
	if h, ok := st.heaps[family]; ok {
		return h
	}
	if old, ok := fg.heapSort[family]; ok && old != sort && sort != "" {
		fg.fail("heap %s used with sorts %s and %s", family, old, sort)
	}
	if sort == "" {
		sort = fg.heapSort[family]
		if sort == "" {
			fg.fail("heap %s has no sort yet", family)
		}
	}
	fg.heapSort[family] = sort
	n := "H0." + family
	if !fg.declSet[n] {
		fg.declare(n, sort)
		fg.typedHeap(n, family, "H0.$alloc")
	}
	return n
}

// wfTerm returns the well-typedness formula of a term of Go type t ("" if trivially true).
func (fg *FG) wfTerm(t types.Type, term string, depth int, alloc string) string {
	return fg.wfTermG(t, term, depth, alloc, "")
}

// wfTermG: guard (when non-empty) restricts the closedness facts (references below the allocation
// pointer) to cells of objects that are themselves allocated: unallocated memory is arbitrary, and a
// callee's fresh objects "already had" their final contents there.
func (fg *FG) wfTermG(t types.Type, term string, depth int, alloc string, guard string) string {
	if depth > 3 {
		return ""
	}
	t = types.Unalias(t)
	if f := fg.sorts.rangeFact(t, term); f != "" {
		if alloc != "" {
			var closed string
			switch t.Underlying().(type) {
			case *types.Pointer, *types.Map, *types.Chan:
				closed = fmt.Sprintf("(< %s %s)", term, alloc)
			case *types.Slice:
				closed = fmt.Sprintf("(< (s.arr %s) %s)", term, alloc)
			}
			if closed != "" {
				if guard != "" {
					closed = fmt.Sprintf("(=> %s %s)", guard, closed)
				}
				f = fmt.Sprintf("(and %s %s)", f, closed)
			}
		}
		return f
	}
	if s, ok := t.Underlying().(*types.Struct); ok {
		sn := fg.sorts.sortOf(t)
		var parts []string
		for i := 0; i < s.NumFields(); i++ {
			if f := fg.wfTermG(s.Field(i).Type(), fmt.Sprintf("(%s %s)", fg.sorts.fieldAcc(sn, s, i), term), depth+1, alloc, guard); f != "" {
				parts = append(parts, f)
			}
		}
		if len(parts) == 0 {
			return ""
		}
		return smtAnd(parts)
	}
	return ""
}

// typedHeap states that every cell of an unconstrained heap version holds a well-typed value
// (unsigned ranges, slice header shape, non-negative references).
func (fg *FG) typedHeap(name, family, alloc string) {
	t := fg.heapTy[family]
	if t == nil {
		return
	}
	var ax string
	if strings.HasPrefix(family, "E_") {
		f := fg.wfTermG(t, fmt.Sprintf("(select (select %s a) x)", name), 0, alloc, fmt.Sprintf("(< a %s)", alloc))
		if f == "" {
			return
		}
		ax = fmt.Sprintf("(assert (forall ((a Int) (x Int)) (! %s :pattern ((select (select %s a) x)))))", f, name)
	} else {
		f := fg.wfTermG(t, fmt.Sprintf("(select %s r)", name), 0, alloc, fmt.Sprintf("(< r %s)", alloc))
		if f == "" {
			return
		}
		ax = fmt.Sprintf("(assert (forall ((r Int)) (! %s :pattern ((select %s r)))))", f, name)
	}
	fg.decls = append(fg.decls, ax)
}

// guardLoopWrite: every heap family written inside a loop must have been given a fresh version at
// the loop head; otherwise the loop invariant would be checked against a state in which earlier
// iterations never wrote (soundness guard for the static computation of the havoc set).
func (fg *FG) guardLoopWrite(family string) {
	if fg.inHavoc || fg.loopHavoc == nil || family == "$alloc" {
		return
	}
	for h, fams := range fg.loopHavoc {
		if fg.loopBlocks[h][fg.curBlock] && !fams[family] {
			fg.fail("internal: loop %d writes heap family %s that was not havocked at its head (soundness guard)", fg.loopOrd[h], family)
		}
	}
}

func (fg *FG) setHeap(st *State, family, term string) {
	fg.guardLoopWrite(family)
	srt := fg.heapSort[family]
	n := fg.define("H."+family, srt, term)
	st.heaps[family] = n
}

func (fg *FG) havocHeap(st *State, family string) string {
	fg.guardLoopWrite(family)
	srt := fg.heapSort[family]
	if srt == "" {
		fg.fail("havoc of undeclared heap %s", family)
	}
	n := fg.fresh("H."+family, srt)
	st.heaps[family] = n
	if family != "$alloc" {
		fg.typedHeap(n, family, fg.heap(st, "$alloc", "Int"))
	}
	return n
}

func (fg *FG) fieldFamily(structTy types.Type, st *types.Struct, i int) (string, string) {
	sn := fg.sorts.structSortName(structTy)
	fname := st.Field(i).Name()
	if fname == "_" {
		fname = fmt.Sprintf("_%d", i)
	}
	fam := "F_" + strings.TrimPrefix(sn, "S_") + "_" + sanitize(fname)
	fg.heapTy[fam] = st.Field(i).Type()
	return fam, "(Array Int " + fg.sorts.sortOf(st.Field(i).Type()) + ")"
}

func (fg *FG) cellFamily(t types.Type) (string, string) {
	fam := "C_" + shortTypeName(t)
	fg.heapTy[fam] = t
	return fam, "(Array Int " + fg.sorts.sortOf(t) + ")"
}

func (fg *FG) elemFamily(t types.Type) (string, string) {
	fam := "E_" + shortTypeName(t)
	fg.heapTy[fam] = t
	return fam, "(Array Int (Array Int " + fg.sorts.sortOf(t) + "))"
}

func structOf(t types.Type) (*types.Struct, bool) {
	st, ok := types.Unalias(t).Underlying().(*types.Struct)
	return st, ok
}

// locOf converts a pointer value to a location.
func (fg *FG) locOf(p Val) *Loc {
	if p.Loc != nil {
		return p.Loc
	}
	pt, ok := types.Unalias(p.Ty).Underlying().(*types.Pointer)
	if !ok {
		fg.fail("locOf: not a pointer: %v", p.Ty)
	}
	el := pt.Elem()
	if _, isS := structOf(el); isS {
		return &Loc{Kind: LObj, Ref: p.T, Ty: el}
	}
	if arr, isA := types.Unalias(el).Underlying().(*types.Array); isA {
		fam, srt := fg.elemFamily(arr.Elem())
		fg.heapSort[fam] = srt
		return &Loc{Kind: LElem, Heap: fam, Ref: p.T, Idx: "", Ty: el}
	}
	fam, srt := fg.cellFamily(el)
	fg.heapSort[fam] = srt
	return &Loc{Kind: LCell, Heap: fam, Ref: p.T, Ty: el}
}

func (fg *FG) baseSortFamily(l *Loc) {
	// make sure heap family sort is registered
	switch l.Kind {
	case LCell:
		_, srt := fg.cellFamily(fg.rootTy(l))
		fg.heapSort[l.Heap] = srt
	}
}

func (fg *FG) rootTy(l *Loc) types.Type {
	if len(l.Path) == 0 {
		return l.Ty
	}
	if l.Path[0].Struct != nil {
		return l.Path[0].Struct
	}
	return nil
}

// load reads the value stored at l in state st.
func (fg *FG) load(st *State, l *Loc) string {
	var base string
	switch l.Kind {
	case LObj:
		if len(l.Path) > 0 {
			fg.fail("load: path on object loc")
		}
		s, _ := structOf(l.Ty)
		name := fg.sorts.sortOf(l.Ty)
		if s.NumFields() == 0 {
			return "mk-" + name
		}
		var parts []string
		for i := 0; i < s.NumFields(); i++ {
			fam, srt := fg.fieldFamily(l.Ty, s, i)
			parts = append(parts, fmt.Sprintf("(select %s %s)", fg.heap(st, fam, srt), l.Ref))
		}
		return fmt.Sprintf("(mk-%s %s)", name, strings.Join(parts, " "))
	case LCell, LField, LGhost:
		base = fmt.Sprintf("(select %s %s)", fg.heap(st, l.Heap, ""), l.Ref)
	case LElem:
		if l.Idx == "" {
			// whole array
			base = fmt.Sprintf("(select %s %s)", fg.heap(st, l.Heap, ""), l.Ref)
		} else {
			base = fmt.Sprintf("(select (select %s %s) %s)", fg.heap(st, l.Heap, ""), l.Ref, l.Idx)
		}
	case LGlobal:
		base = l.Ref
	}
	return fg.applyPath(base, l.Path)
}

func (fg *FG) applyPath(base string, path []PathStep) string {
	for _, ps := range path {
		if ps.Struct != nil {
			s, _ := structOf(ps.Struct)
			base = fmt.Sprintf("(%s %s)", fg.sorts.fieldAcc(fg.sorts.sortOf(ps.Struct), s, ps.Field), base)
		} else {
			base = fmt.Sprintf("(select %s %s)", base, ps.Index)
		}
	}
	return base
}

// updPath returns the term of the value `base` with the component at path replaced by v.
func (fg *FG) updPath(base string, path []PathStep, v string) string {
	if len(path) == 0 {
		return v
	}
	ps := path[0]
	if ps.Struct != nil {
		s, _ := structOf(ps.Struct)
		sn := fg.sorts.sortOf(ps.Struct)
		var parts []string
		for i := 0; i < s.NumFields(); i++ {
			acc := fmt.Sprintf("(%s %s)", fg.sorts.fieldAcc(sn, s, i), base)
			if i == ps.Field {
				parts = append(parts, fg.updPath(acc, path[1:], v))
			} else {
				parts = append(parts, acc)
			}
		}
		return fmt.Sprintf("(mk-%s %s)", sn, strings.Join(parts, " "))
	}
	inner := fmt.Sprintf("(select %s %s)", base, ps.Index)
	return fmt.Sprintf("(store %s %s %s)", base, ps.Index, fg.updPath(inner, path[1:], v))
}

// store writes v at l, updating st.
func (fg *FG) store(st *State, l *Loc, v string) {
	switch l.Kind {
	case LObj:
		s, _ := structOf(l.Ty)
		sn := fg.sorts.sortOf(l.Ty)
		vv := v
		if s.NumFields() > 1 && len(v) > 40 {
			vv = fg.define("sv", sn, v)
		}
		for i := 0; i < s.NumFields(); i++ {
			fam, srt := fg.fieldFamily(l.Ty, s, i)
			h := fg.heap(st, fam, srt)
			fg.setHeap(st, fam, fmt.Sprintf("(store %s %s (%s %s))", h, l.Ref, fg.sorts.fieldAcc(sn, s, i), vv))
		}
	case LCell, LField, LGhost:
		h := fg.heap(st, l.Heap, "")
		cur := fmt.Sprintf("(select %s %s)", h, l.Ref)
		fg.setHeap(st, l.Heap, fmt.Sprintf("(store %s %s %s)", h, l.Ref, fg.updPath(cur, l.Path, v)))
	case LElem:
		h := fg.heap(st, l.Heap, "")
		if l.Idx == "" {
			cur := fmt.Sprintf("(select %s %s)", h, l.Ref)
			fg.setHeap(st, l.Heap, fmt.Sprintf("(store %s %s %s)", h, l.Ref, fg.updPath(cur, l.Path, v)))
			return
		}
		arr := fmt.Sprintf("(select %s %s)", h, l.Ref)
		cur := fmt.Sprintf("(select %s %s)", arr, l.Idx)
		fg.setHeap(st, l.Heap, fmt.Sprintf("(store %s %s (store %s %s %s))", h, l.Ref, arr, l.Idx, fg.updPath(cur, l.Path, v)))
	case LGlobal:
		fg.fail("store to global %s is outside the subset (globals are modelled as immutable)", l.Ref)
	}
}

// registerLocHeap makes sure the heap family of a location has a sort.
func (fg *FG) registerLoc(l *Loc) {
	if l.Heap == "" {
		return
	}
	if _, ok := fg.heapSort[l.Heap]; ok {
		return
	}
	fg.fail("internal: heap family %s has no sort", l.Heap)
}

func (fg *FG) allocRef(st *State) string {
	a := fg.heap(st, "$alloc", "Int")
	r := fg.define("ref", "Int", a)
	fg.setHeap(st, "$alloc", fmt.Sprintf("(+ %s 1)", a))
	return r
}

// ---------- loops ----------

func (fg *FG) analyzeLoops() {
	fn := fg.fn
	var headers []int
	for _, b := range fn.Blocks {
		for _, s := range b.Succs {
			if s.Dominates(b) {
				// back-edge b -> s
				if _, ok := fg.loopBlocks[s.Index]; !ok {
					fg.loopBlocks[s.Index] = map[int]bool{s.Index: true}
					headers = append(headers, s.Index)
				}
				// natural loop: nodes reaching b without passing s
				var stack []*ssa.BasicBlock
				if !fg.loopBlocks[s.Index][b.Index] {
					fg.loopBlocks[s.Index][b.Index] = true
					stack = append(stack, b)
				}
				for len(stack) > 0 {
					x := stack[len(stack)-1]
					stack = stack[:len(stack)-1]
					for _, p := range x.Preds {
						if !fg.loopBlocks[s.Index][p.Index] {
							fg.loopBlocks[s.Index][p.Index] = true
							stack = append(stack, p)
						}
					}
				}
			}
		}
	}
	// ordinal by source position of the loop (position of first instruction with valid pos in the header or body), fallback index
	type hp struct {
		idx int
		pos token.Pos
	}
	var hs []hp
	for _, h := range headers {
		pos := token.NoPos
		for bi := range fg.loopBlocks[h] {
			for _, in := range fn.Blocks[bi].Instrs {
				if _, isDbg := in.(*ssa.DebugRef); isDbg {
					continue
				}
				if _, isPhi := in.(*ssa.Phi); isPhi {
					continue // a phi carries the position of the variable's declaration, not of the loop
				}
				if p := in.Pos(); p.IsValid() && (pos == token.NoPos || p < pos) {
					pos = p
				}
			}
		}
		hs = append(hs, hp{h, pos})
	}
	sort.Slice(hs, func(i, j int) bool {
		if hs[i].pos != hs[j].pos {
			return hs[i].pos < hs[j].pos
		}
		return hs[i].idx < hs[j].idx
	})
	for i, h := range hs {
		fg.loopOrd[h.idx] = i
		if os.Getenv("GOVC_DEBUG") != "" {
			fmt.Fprintf(os.Stderr, "loop %d: header b%d pos %v\n", i, h.idx, fn.Prog.Fset.Position(h.pos))
		}
	}
}

func (fg *FG) isBackEdge(p, s *ssa.BasicBlock) bool {
	return s.Dominates(p)
}

// order returns reachable blocks in reverse postorder ignoring back-edges.
func (fg *FG) order() []*ssa.BasicBlock {
	seen := map[int]bool{}
	var post []*ssa.BasicBlock
	var dfs func(b *ssa.BasicBlock)
	dfs = func(b *ssa.BasicBlock) {
		seen[b.Index] = true
		for _, s := range b.Succs {
			if fg.isBackEdge(b, s) || seen[s.Index] {
				continue
			}
			dfs(s)
		}
		post = append(post, b)
	}
	dfs(fg.fn.Blocks[0])
	for i, j := 0, len(post)-1; i < j; i, j = i+1, j-1 {
		post[i], post[j] = post[j], post[i]
	}
	return post
}
