package main

import (
	"fmt"
	"go/token"
	"go/types"
	"os"
	"path/filepath"
	"sort"
	"strings"

	"golang.org/x/tools/go/packages"
	"golang.org/x/tools/go/ssa"
	"golang.org/x/tools/go/ssa/ssautil"
)

// repoDir is /repo; the selftest (and only it) points the engine at a scratch worktree carrying a
// seeded change through GOVC_REPO, with outputs redirected by GOVC_OUT.
var repoDir = envOr("GOVC_REPO", "/repo")

var outRoot = envOr("GOVC_OUT", "/verif/out")

func envOr(k, d string) string {
	if v := os.Getenv(k); v != "" {
		return v
	}
	return d
}
const verifDir = "/verif"
const repoModule = "github.com/jamf/regatta"

type Gen struct {
	prog        *ssa.Program
	funcVars    map[*ssa.Global]*ssa.Function // package-level function variables that are never reassigned
	fset        *token.FileSet
	pkgs        []*packages.Package
	ssaPkgs     []*ssa.Package
	ct          *ContractTable
	byName      map[string][]*types.Package
	byPath      map[string]*types.Package
	specSorts   map[string]string
	assumptions map[string]bool
	lemmaUses   map[string]bool
	cloCells    map[*FG]map[string]*closureInfo
	rangeMaps   map[*ssa.Range]Val
	allowNoInv  bool
	pureUF      bool
	callees     map[string]map[string]bool
	globals     map[*FG][]string
	nonblocking map[string]bool
	fnIndex     map[string]*ssa.Function
	fieldFT     map[string]string
}

func (g *Gen) noteAssumption(s string) { g.assumptions[s] = true }
func (g *Gen) noteLemmaUse(k string)   { g.lemmaUses[k] = true }
func (g *Gen) noteCallee(fg *FG, c *Contract) {
	if g.callees[fg.name] == nil {
		g.callees[fg.name] = map[string]bool{}
	}
	g.callees[fg.name][c.Key] = true
}
func (g *Gen) globalsSeen(fg *FG) []string      { return g.globals[fg] }
func (g *Gen) addGlobalSeen(fg *FG, n string)   { g.globals[fg] = append(g.globals[fg], n) }
func (g *Gen) nonblockingFn(name string) bool {
	if c := g.ct.C[name]; c != nil && c.Nonblocking {
		return true
	}
	return g.nonblocking[name]
}
func (g *Gen) canInline(fn *ssa.Function) bool {
	if fn.Blocks == nil || fn.Recover != nil && false {
		return false
	}
	n := 0
	for _, b := range fn.Blocks {
		n += len(b.Instrs)
	}
	return n <= 120
}
func (g *Gen) inRepo(fn *ssa.Function) bool {
	p := g.pkgOfFn(fn)
	return p != nil && strings.HasPrefix(p.Path(), repoModule)
}

func (g *Gen) pkgOfFn(fn *ssa.Function) *types.Package {
	for f := fn; f != nil; f = f.Parent() {
		if f.Pkg != nil {
			return f.Pkg.Pkg
		}
		if o := f.Origin(); o != nil && o.Pkg != nil {
			return o.Pkg.Pkg
		}
	}
	if fn.Object() != nil {
		return fn.Object().Pkg()
	}
	return nil
}

func (g *Gen) findPkg(from *types.Package, name string) *types.Package {
	if path, ok := g.ct.Imports[name]; ok {
		if p := g.byPath[path]; p != nil {
			return p
		}
	}
	if from != nil {
		if from.Name() == name {
			return from
		}
		var cands []*types.Package
		for _, p := range from.Imports() {
			if p.Name() == name {
				cands = append(cands, p)
			}
		}
		if len(cands) == 1 {
			return cands[0]
		}
		if len(cands) > 1 {
			// prefer the repository's own package
			for _, c := range cands {
				if strings.HasPrefix(c.Path(), repoModule) {
					return c
				}
			}
			return cands[0]
		}
	}
	return g.pkgByName(name)
}

func (g *Gen) pkgByName(name string) *types.Package {
	if path, ok := g.ct.Imports[name]; ok {
		if p := g.byPath[path]; p != nil {
			return p
		}
	}
	ps := g.byName[name]
	if len(ps) == 0 {
		return nil
	}
	for _, p := range ps {
		if strings.HasPrefix(p.Path(), repoModule) {
			return p
		}
	}
	return ps[0]
}

// keyOf returns the contract key of a function: pkgname.name, pkgname.(*T).m, parentKey$N.
func (g *Gen) keyOf(fn *ssa.Function) string {
	if o := fn.Origin(); o != nil {
		fn = o
	}
	if par := fn.Parent(); par != nil {
		return g.keyOf(par) + strings.TrimPrefix(fn.Name(), par.Name())
	}
	pkgName := ""
	if p := g.pkgOfFn(fn); p != nil {
		pkgName = p.Name()
	}
	if recv := fn.Signature.Recv(); recv != nil {
		rt := types.Unalias(recv.Type())
		ptr := ""
		if p, ok := rt.(*types.Pointer); ok {
			ptr = "*"
			rt = types.Unalias(p.Elem())
		}
		tn := rt.String()
		if n, ok := rt.(*types.Named); ok {
			tn = n.Obj().Name()
			if n.Obj().Pkg() != nil {
				pkgName = n.Obj().Pkg().Name()
			}
		}
		name := fn.Name()
		// strip synthetic suffixes of wrappers
		return fmt.Sprintf("%s.(%s%s).%s", pkgName, ptr, tn, name)
	}
	// the n-th declared "func init()" of a package is init#n in SSA; '#' is the separator of
	// secondary contracts, so the key writes it as init.n
	return pkgName + "." + strings.Replace(fn.Name(), "init#", "init.", 1)
}

func (g *Gen) contractFor(fn *ssa.Function) *Contract {
	if ta := fn.TypeArgs(); len(ta) > 0 {
		var parts []string
		for _, t := range ta {
			parts = append(parts, types.TypeString(t, func(p *types.Package) string { return p.Name() }))
		}
		if c := g.ct.C[g.keyOf(fn)+"["+strings.Join(parts, ",")+"]"]; c != nil {
			return c
		}
	}
	return g.ct.C[g.keyOf(fn)]
}

func (g *Gen) ifaceKey(t types.Type, method string) string {
	t = types.Unalias(t)
	if n, ok := t.(*types.Named); ok {
		if n.Obj().Pkg() == nil {
			return n.Obj().Name() + "." + method
		}
		return n.Obj().Pkg().Name() + "." + n.Obj().Name() + "." + method
	}
	return "iface." + method
}

// findIfaceContract looks for a contract on an embedded interface declaring the method.
func (g *Gen) findIfaceContract(t types.Type, method string) *Contract {
	it, ok := types.Unalias(t).Underlying().(*types.Interface)
	if !ok {
		return nil
	}
	for i := 0; i < it.NumEmbeddeds(); i++ {
		et := it.EmbeddedType(i)
		if c := g.ct.C[g.ifaceKey(et, method)]; c != nil {
			return c
		}
		if c := g.findIfaceContract(et, method); c != nil {
			return c
		}
	}
	return nil
}

// fieldFuncType: "functype Type.field pure" declarations attached to any contract of the package.
func (g *Gen) fieldFuncType(v ssa.Value) string {
	var name string
	switch x := v.(type) {
	case *ssa.UnOp:
		if fa, ok := x.X.(*ssa.FieldAddr); ok {
			pt := types.Unalias(fa.X.Type()).Underlying().(*types.Pointer)
			s, _ := structOf(pt.Elem())
			name = shortTypeBase(pt.Elem()) + "." + s.Field(fa.Field).Name()
		}
	case *ssa.Field:
		s, _ := structOf(x.X.Type())
		name = shortTypeBase(x.X.Type()) + "." + s.Field(x.Field).Name()
	}
	if name == "" {
		return ""
	}
	return g.fieldFT[name]
}

func (fg *FG) ranges_() {}

type ghostFieldInfo struct {
	family string
	ty     string
}

func (fg *FG) ghostField(t types.Type, name string) (ghostFieldInfo, bool) {
	// ghost fields declared on "any" attach to every reference-like value (pointer or interface)
	if ty, ok := fg.g.ct.GhostFields["any."+name]; ok {
		switch u := types.Unalias(t).Underlying().(type) {
		case *types.Pointer, *types.Interface, *types.Signature:
			return ghostFieldInfo{family: "G_any_" + sanitize(name), ty: ty}, true
		case *types.Basic:
			if u.Kind() == types.UnsafePointer {
				return ghostFieldInfo{family: "G_any_" + sanitize(name), ty: ty}, true
			}
		}
	}
	t = types.Unalias(t)
	if p, ok := t.Underlying().(*types.Pointer); ok {
		t = types.Unalias(p.Elem())
	}
	n, ok := t.(*types.Named)
	if !ok {
		return ghostFieldInfo{}, false
	}
	pk := ""
	if n.Obj().Pkg() != nil {
		pk = n.Obj().Pkg().Name()
	}
	key := pk + "." + n.Obj().Name() + "." + name
	ty, ok := fg.g.ct.GhostFields[key]
	if !ok {
		return ghostFieldInfo{}, false
	}
	return ghostFieldInfo{family: "G_" + sanitize(pk+"_"+n.Obj().Name()+"_"+name), ty: ty}, true
}

// refOf returns the Int reference that identifies a pointer or interface value in ghost heaps.
// interiorRef names the address of an embedded struct / field inside an object: an uninterpreted
// function of the enclosing object's reference and the path, used as the key of ghost fields that
// hang on that interior address.
func (fg *FG) interiorRef(l *Loc) string {
	fg.declareFun("interior", []string{"Int", "Int"}, "Int")
	h := 0
	key := l.Heap
	for _, ps := range l.Path {
		key += fmt.Sprintf("/%d:%s", ps.Field, ps.Index)
	}
	for _, c := range key {
		h = (h*31 + int(c)) % 1000003
	}
	ref := l.Ref
	if l.Idx != "" {
		ref = fmt.Sprintf("(interior %s %s)", l.Ref, l.Idx)
	}
	return fmt.Sprintf("(interior %s %d)", ref, h+1000)
}

func (fg *FG) refOf(v Val) string {
	if v.Loc != nil && v.T == "" {
		return fg.interiorRef(v.Loc)
	}
	if v.Ty != nil {
		if _, isI := types.Unalias(v.Ty).Underlying().(*types.Interface); isI {
			return fmt.Sprintf("(i.val %s)", v.T)
		}
	}
	return v.T
}

// load loads the packages (working tree, build tag verif) and builds SSA for them.
func loadGen(patterns []string, overlay map[string][]byte) (*Gen, error) {
	os.MkdirAll(outRoot, 0o755)
	// scratch copy of go.mod/go.sum so that -mod=mod never rewrites /repo/go.mod
	modCopy := filepath.Join(outRoot, "go.mod")
	for _, f := range []string{"go.mod", "go.sum"} {
		b, err := os.ReadFile(filepath.Join(repoDir, f))
		if err != nil {
			return nil, err
		}
		if err := os.WriteFile(filepath.Join(outRoot, f), b, 0o644); err != nil {
			return nil, err
		}
	}
	cfg := &packages.Config{
		Mode:       packages.LoadSyntax,
		Dir:        repoDir,
		BuildFlags: []string{"-tags=verif", "-modfile=" + modCopy},
		Env:        append(os.Environ(), "GOFLAGS=-mod=mod", "GOPROXY=off", "GOSUMDB=off", "GOTOOLCHAIN=local"),
		Overlay:    overlay,
	}
	pkgs, err := packages.Load(cfg, patterns...)
	if err != nil {
		return nil, err
	}
	var errs []string
	packages.Visit(pkgs, nil, func(p *packages.Package) {
		for _, e := range p.Errors {
			errs = append(errs, e.Error())
		}
	})
	if len(errs) > 0 {
		return nil, fmt.Errorf("package load errors:\n%s", strings.Join(errs, "\n"))
	}
	prog, spkgs := ssautil.Packages(pkgs, ssa.InstantiateGenerics|ssa.GlobalDebug)
	g := &Gen{prog: prog, fset: prog.Fset, pkgs: pkgs, byName: map[string][]*types.Package{}, byPath: map[string]*types.Package{},
		specSorts: map[string]string{}, assumptions: map[string]bool{}, lemmaUses: map[string]bool{}, rangeMaps: map[*ssa.Range]Val{},
		callees: map[string]map[string]bool{}, globals: map[*FG][]string{}, nonblocking: map[string]bool{}, fnIndex: map[string]*ssa.Function{}, fieldFT: map[string]string{}}
	for _, sp := range spkgs {
		if sp != nil {
			sp.Build()
			g.ssaPkgs = append(g.ssaPkgs, sp)
		}
	}
	seen := map[string]bool{}
	var visit func(p *types.Package)
	visit = func(p *types.Package) {
		if seen[p.Path()] {
			return
		}
		seen[p.Path()] = true
		g.byName[p.Name()] = append(g.byName[p.Name()], p)
		g.byPath[p.Path()] = p
		for _, i := range p.Imports() {
			visit(i)
		}
	}
	for _, p := range pkgs {
		if p.Types != nil {
			visit(p.Types)
		}
	}
	extDir := filepath.Join(verifDir, "contracts", "ext")
	if d := os.Getenv("GOVC_EXT"); d != "" {
		extDir = d // development only: an alternative directory of assumed contracts
	}
	ct, err := loadAllContracts(repoDir, []string{extDir, filepath.Join(verifDir, "contracts", "lemmas")})
	if err != nil {
		return nil, err
	}
	g.ct = ct
	for _, c := range ct.C {
		for k, v := range c.FuncTypes {
			if strings.Contains(k, ".") {
				g.fieldFT[k] = v
			}
		}
	}
	// index functions (including closures and instantiations) by key
	for _, sp := range g.ssaPkgs {
		for _, m := range sp.Members {
			switch x := m.(type) {
			case *ssa.Function:
				g.indexFn(x)
			case *ssa.Type:
				if named, ok := x.Type().(*types.Named); ok {
					for i := 0; i < named.NumMethods(); i++ {
						if f := prog.FuncValue(named.Method(i)); f != nil {
							g.indexFn(f)
						}
					}
				}
				for _, t := range []types.Type{x.Type(), types.NewPointer(x.Type())} {
					ms := prog.MethodSets.MethodSet(t)
					for i := 0; i < ms.Len(); i++ {
						if f := prog.MethodValue(ms.At(i)); f != nil && f.Synthetic == "" {
							g.indexFn(f)
						}
					}
				}
			}
		}
	}
	// instances of generic functions reachable from the loaded code
	seenInst := map[*ssa.Function]bool{}
	var work []*ssa.Function
	for _, f := range g.fnIndex {
		work = append(work, f)
	}
	for len(work) > 0 {
		f := work[len(work)-1]
		work = work[:len(work)-1]
		if seenInst[f] {
			continue
		}
		seenInst[f] = true
		for _, a := range f.AnonFuncs {
			work = append(work, a)
		}
		for _, b := range f.Blocks {
			for _, in := range b.Instrs {
				var callee *ssa.Function
				switch x := in.(type) {
				case ssa.CallInstruction:
					callee = x.Common().StaticCallee()
				}
				if callee != nil && len(callee.TypeArgs()) > 0 && callee.Blocks != nil {
					k := g.instKey(callee)
					if _, ok := g.fnIndex[k]; !ok {
						g.fnIndex[k] = callee
					}
					work = append(work, callee)
				}
			}
		}
	}
	return g, nil
}

func (g *Gen) instKey(fn *ssa.Function) string {
	var parts []string
	for _, t := range fn.TypeArgs() {
		parts = append(parts, types.TypeString(t, func(p *types.Package) string { return p.Name() }))
	}
	return g.keyOf(fn) + "[" + strings.Join(parts, ",") + "]"
}

func (g *Gen) indexFn(f *ssa.Function) {
	if f == nil {
		return
	}
	k := g.keyOf(f)
	if _, ok := g.fnIndex[k]; !ok {
		g.fnIndex[k] = f
	}
	for _, a := range f.AnonFuncs {
		g.indexFn(a)
	}
}

func (g *Gen) sortedFnKeys() []string {
	var ks []string
	for k := range g.fnIndex {
		ks = append(ks, k)
	}
	sort.Strings(ks)
	return ks
}
