package main

import (
	"encoding/json"
	"flag"
	"fmt"
	"os"
	"path/filepath"
	"regexp"
	"sort"
	"strconv"
	"strings"
	"time"
)

// PropCfg is the per-property configuration in /verif/props.json.
type PropCfg struct {
	Packages    []string `json:"packages"`
	Functions   []string `json:"functions"`
	Lemmas      []string `json:"lemmas"`
	Assumptions []string `json:"assumptions"`
	OutOfReach  []string `json:"out_of_reach"`
	Bounded     []string `json:"bounded"`
	Replay      map[string]string `json:"replay"` // obligation regex -> driver name
}

type KnownFinding struct {
	Property   string `json:"property"`
	Obligation string `json:"obligation"` // function key + "::" + obligation name without position
	Status     string `json:"status"`     // known | fixed
	What       string `json:"what"`
	Commit     string `json:"commit,omitempty"`
}

func loadProps() (map[string]*PropCfg, error) {
	b, err := os.ReadFile(filepath.Join(verifDir, "props.json"))
	if err != nil {
		return nil, err
	}
	m := map[string]*PropCfg{}
	if err := json.Unmarshal(b, &m); err != nil {
		return nil, err
	}
	return m, nil
}

func loadKnown() ([]KnownFinding, error) {
	b, err := os.ReadFile(filepath.Join(verifDir, "known_findings.json"))
	if err != nil {
		if os.IsNotExist(err) {
			return nil, nil
		}
		return nil, err
	}
	var k struct {
		Findings []KnownFinding `json:"findings"`
	}
	if err := json.Unmarshal(b, &k); err != nil {
		return nil, err
	}
	return k.Findings, nil
}

var posSuffix = regexp.MustCompile(`@[^@]*$`)

// stableName strips the position suffix of an obligation name (known findings are keyed by
// function and clause, never by line).
func stableName(o *Oblig) string {
	n := o.Name
	if strings.HasPrefix(n, "post:") || strings.HasPrefix(n, "inv-step:") || strings.HasPrefix(n, "exit:") || strings.HasPrefix(n, "pre:") || strings.HasPrefix(n, "safe:") || strings.HasPrefix(n, "frame") || strings.HasPrefix(n, "dead:") || strings.HasPrefix(n, "assert:") || strings.HasPrefix(n, "cover:") {
		n = posSuffix.ReplaceAllString(n, "")
	}
	return o.Fn + "::" + n
}

func cmdCheck(args []string) {
	fs := flag.NewFlagSet("check", flag.ExitOnError)
	prop := fs.String("property", "", "property id")
	tierF := fs.String("tier", "", "quick|thorough")
	fs.Parse(args)
	tier := *tierF
	if tier == "" {
		tier = os.Getenv("VERIF_TIER")
	}
	if tier == "" {
		tier = "quick"
	}
	seed := 0
	if s := os.Getenv("VERIF_SEED"); s != "" {
		seed, _ = strconv.Atoi(s)
	}
	code := runCheck(*prop, tier, seed)
	os.Exit(code)
}

type evidence struct {
	PropertyID  string                 `json:"property_id"`
	Tier        string                 `json:"tier"`
	Seed        int                    `json:"seed"`
	Level       string                 `json:"level"`
	Coverage    map[string]interface{} `json:"coverage"`
	Assumptions []string               `json:"assumptions"`
	WallS       float64                `json:"wall_s"`
	Violations  int                    `json:"violations"`
}

var regressions []map[string]string

func runCheck(prop, tier string, seed int) int {
	t0 := time.Now()
	props, err := loadProps()
	if err != nil {
		fmt.Println("UNDECIDED cannot read props.json:", err)
		return 2
	}
	cfg := props[prop]
	if cfg == nil {
		fmt.Printf("UNDECIDED unknown property %s\n", prop)
		return 2
	}
	known, err := loadKnown()
	if err != nil {
		fmt.Println("UNDECIDED cannot read known_findings.json:", err)
		return 2
	}
	g, err := loadGen(cfg.Packages, nil)
	if err != nil {
		fmt.Println("UNDECIDED cannot load packages:", err)
		writeEvidence(prop, tier, seed, nil, nil, cfg, g, time.Since(t0).Seconds(), 0, []string{"load error: " + err.Error()})
		return 2
	}
	keys := append([]string{}, cfg.Functions...)
	for _, l := range cfg.Lemmas {
		keys = append(keys, "lemma."+l)
	}
	for _, k := range known {
		if k.Status == "known" {
			quickFail[k.Obligation] = true
		}
	}
	outDir := filepath.Join(outRoot, "smt", prop)
	os.RemoveAll(outDir)
	res := verifyFns(g, keys, outDir, tier, seed)

	var toolErrs []string
	var failed []*Oblig
	var all []*Oblig
	otherProp := 0
	for _, r := range res {
		if r.Err != nil {
			toolErrs = append(toolErrs, r.Err.Error())
			continue
		}
		for _, se := range r.Soft {
			toolErrs = append(toolErrs, r.Key+": "+se)
		}
		reach := 0
		nret := 0
		anyFailed := false
		for _, o := range r.Obs {
			if !o.Cover && !o.ok() {
				anyFailed = true
			}
		}
		for _, o := range r.Obs {
			all = append(all, o)
			if o.Cover {
				if strings.HasPrefix(o.Name, "cover:return") {
					nret++
					if o.Result != "unsat" {
						reach++
					}
				}
				if o.Result == "unsat" && anyFailed && o.Name != "cover:requires" {
					// a failed obligation is assumed afterwards, which may make later code unreachable:
					// the failure is reported, the unreachability is a consequence
					continue
				}
				if o.Result == "unsat" {
					if o.Name == "cover:requires" {
						toolErrs = append(toolErrs, fmt.Sprintf("%s: contract is vacuous (requires clauses are contradictory)", r.Key))
					} else {
						toolErrs = append(toolErrs, fmt.Sprintf("%s: %s is unreachable under the contract but not declared dead (vacuity guard)", r.Key, o.Name))
					}
				}
				continue
			}
			if !o.ok() {
				// an obligation tagged for another property is decided by that property's check
				if tps := tagProps(o.Tag); len(tps) > 0 && !tps[prop] {
					otherProp++
					continue
				}
				failed = append(failed, o)
			}
		}
		if len(r.Obs) == 0 {
			toolErrs = append(toolErrs, fmt.Sprintf("%s: no obligations generated", r.Key))
		}
	}
	// classify failures against the known-findings file
	violations := 0
	var knownHit []string
	replayDir := filepath.Join(outRoot, "replay", prop)
	os.MkdirAll(replayDir, 0o755)
	seenStable := map[string]bool{}
	for i, o := range failed {
		sn := stableName(o)
		if seenStable[sn] {
			continue
		}
		seenStable[sn] = true
		isKnown := false
		for _, k := range known {
			if k.Property == prop && k.Status == "known" && k.Obligation == sn {
				isKnown = true
				fmt.Printf("KNOWN-FINDING: property=%s %s (%s)\n", prop, k.What, sn)
				knownHit = append(knownHit, sn)
			}
		}
		if isKnown {
			continue
		}
		violations++
		path := filepath.Join(replayDir, fmt.Sprintf("%02d_%s.json", i, sanitize(sn)))
		confirmed := writeReplay(g, cfg, prop, o, path)
		line := fmt.Sprintf("VIOLATION property=%s replay=%s", prop, path)
		fmt.Printf("  failed obligation %s [%s] clause: %s (%s)\n", sn, o.Result, o.Src, o.Pos)
		if !confirmed {
			line += " no-failing-input-found"
		}
		fmt.Println(line)
	}
	// thorough tier: the scenarios of the recorded findings are re-run against the real code. A fixed
	// defect whose scenario reproduces again is a violation with a confirmed failing input; a known
	// finding is expected to reproduce (reported, not counted).
	if tier == "thorough" {
		ranDriver := map[string]bool{}
		for _, k := range known {
			if k.Property != prop {
				continue
			}
			driver := ""
			for pat, d := range cfg.Replay {
				if ok, _ := regexp.MatchString(pat, k.Obligation); ok {
					driver = d
				}
			}
			if driver == "" || ranDriver[driver] {
				continue
			}
			ranDriver[driver] = true
			rf := replayFile{Property: prop, Obligation: k.Obligation, Kind: "regression", Clause: k.What, Driver: driver, Result: "scenario of a recorded finding re-run against the real code"}
			out, pkgDir, reproduced, err := runDriver(driver, rf)
			rf.DriverPkg, rf.TestOutput = pkgDir, truncate(out, 6000)
			switch {
			case err != nil:
				rf.Outcome = "driver-error: " + err.Error()
			case reproduced:
				rf.Outcome = "confirmed"
			default:
				rf.Outcome = "not-reproduced"
			}
			path := filepath.Join(replayDir, fmt.Sprintf("regression_%s.json", sanitize(driver)))
			b, _ := json.MarshalIndent(rf, "", " ")
			os.WriteFile(path, b, 0o644)
			regressions = append(regressions, map[string]string{"driver": driver, "finding": k.Obligation, "status": k.Status, "outcome": rf.Outcome})
			if k.Status == "fixed" && reproduced {
				violations++
				fmt.Printf("  the scenario of the fixed defect %s reproduces again on the real code (driver %s)\n", k.Obligation, driver)
				fmt.Printf("VIOLATION property=%s replay=%s\n", prop, path)
			} else if k.Status == "fixed" && err != nil {
				toolErrs = append(toolErrs, fmt.Sprintf("replay driver %s: %v", driver, err))
			} else {
				fmt.Printf("replay %s (%s finding %s): %s\n", driver, k.Status, k.Obligation, rf.Outcome)
			}
		}
	}
	for _, e := range toolErrs {
		fmt.Println("UNDECIDED", e)
	}
	wall := time.Since(t0).Seconds()
	knownSet = map[string]bool{}
	for _, k := range knownHit {
		knownSet[k] = true
	}
	writeEvidence(prop, tier, seed, res, all, cfg, g, wall, violations, toolErrs)
	nd := 0
	for _, o := range all {
		if !o.Cover && o.ok() {
			nd++
		}
	}
	nob := 0
	for _, o := range all {
		if !o.Cover {
			nob++
		}
	}
	if otherProp > 0 {
		fmt.Printf("note: %d failed obligations belong to other properties (by clause tag) and are reported by their checks\n", otherProp)
	}
	fmt.Printf("%s: %d functions/lemmas, %d obligations, %d discharged, %d known findings, %d violations, %d tool errors, %.1fs\n", prop, len(res), nob, nd, len(knownHit), violations, len(toolErrs), wall)
	if violations > 0 {
		return 1
	}
	if len(toolErrs) > 0 {
		return 2
	}
	return 0
}

var knownSet = map[string]bool{}

func writeEvidence(prop, tier string, seed int, res []*fnResult, all []*Oblig, cfg *PropCfg, g *Gen, wall float64, violations int, toolErrs []string) {
	nob, nd := 0, 0
	nknown, nother := 0, 0
	byBackend := map[string]int{}
	var total, maxT float64
	type slow struct {
		Name string  `json:"name"`
		T    float64 `json:"solver_time_s"`
	}
	var slows []slow
	var samples []map[string]interface{}
	covers := map[string]int{}
	for _, o := range all {
		if o.Cover {
			covers[o.Result]++
			continue
		}
		if knownSet[stableName(o)] && !o.ok() {
			nknown++
			continue
		}
		if tps := tagProps(o.Tag); len(tps) > 0 && !tps[prop] && !o.ok() {
			nother++
			continue
		}
		nob++
		total += o.TimeS
		if o.TimeS > maxT {
			maxT = o.TimeS
		}
		slows = append(slows, slow{stableName(o), o.TimeS})
		if o.ok() {
			nd++
			byBackend[o.Solver]++
		}
	}
	sort.Slice(slows, func(i, j int) bool { return slows[i].T > slows[j].T })
	if len(slows) > 5 {
		slows = slows[:5]
	}
	step := len(all)/6 + 1
	for i := 0; i < len(all); i += step {
		o := all[i]
		samples = append(samples, map[string]interface{}{"obligation": stableName(o), "kind": o.Kind, "clause": o.Src, "at": o.Pos, "result": o.Result, "solver": o.Solver, "time_s": o.TimeS})
	}
	var fns []map[string]interface{}
	trusted := map[string]bool{}
	for _, r := range res {
		st := "proved"
		if r.Err != nil {
			st = "error: " + r.Err.Error()
		} else {
			for _, o := range r.Obs {
				if !o.Cover && !o.ok() {
					st = "failed"
				}
			}
		}
		e := map[string]interface{}{"function": r.Key, "obligations": len(r.Obs), "status": st}
		if c := g.ct.C[r.Key]; c != nil {
			for _, gs := range c.GhostSets {
				trusted[fmt.Sprintf("ghost assignment in %s (model state set by annotation, not derived from the code): %s = %s", r.Key, gs[0].Src, gs[1].Src)] = true
			}
			e["contract"] = fmt.Sprintf("%s:%d", c.File, c.Line)
			e["clauses"] = len(c.Requires) + len(c.Ensures) + len(c.Loops)
		}
		fns = append(fns, e)
		if r.FG != nil {
			for k := range r.FG.usedAssumed {
				if strings.HasPrefix(k, "iface:") {
					trusted[g.ifaceCoverage(strings.TrimPrefix(k, "iface:"))] = true
					continue
				}
				if strings.HasPrefix(k, "funcvar:") {
					trusted["package-level function variable treated as a constant (set only by its declaration in the loaded packages): "+strings.TrimPrefix(k, "funcvar:")] = true
					continue
				}
				trusted["assumed contract: "+k] = true
			}
			if strings.HasPrefix(r.Key, "refines:") {
				for _, rf := range g.ct.Refines {
					if "refines:"+rf.Iface+":"+rf.Impl == r.Key {
						for _, a := range rf.Assuming {
							trusted[fmt.Sprintf("input validity ASSUMED by the refinement of %s by %s: %s", rf.Iface, rf.Impl, a.Src)] = true
						}
					}
				}
			}
		}
	}
	if g != nil {
		for a := range g.assumptions {
			trusted[a] = true
		}
	}
	var tb []string
	for k := range trusted {
		tb = append(tb, k)
	}
	sort.Strings(tb)
	assumptions := []string{
		"integer model: Go integers are SMT Int; signed and 64-bit unsigned +,* are mathematical (no overflow check); uint64 subtraction and int->uint64 conversion carry a no-wrap obligation; narrower unsigned types wrap",
		"memory model: typed heaps (one per struct field / element type), slices as (array, offset, len, cap) with exact append/copy aliasing semantics; pointer parameters are assumed not to alias slice elements",
		"sequential semantics only: goroutine interleavings, timers, GC are not modelled; mutexes are no-ops (data-race freedom assumed)",
		"termination is not proved",
		"dependencies (module cache, stdlib) enter only through the assumed contracts listed in trusted_base",
		"soundness of the self-written VC generator (govc) and of the SMT solvers",
	}
	assumptions = append(assumptions, cfg.Assumptions...)
	for _, o := range cfg.OutOfReach {
		assumptions = append(assumptions, "out of reach (not decided): "+o)
	}
	cov := map[string]interface{}{
		"obligations":              nob,
		"discharged":               nd,
		"checker_cmd":              fmt.Sprintf("/verif/bin/govc check --property %s --tier %s", prop, tier),
		"trusted_base":             tb,
		"functions_under_contract": fns,
		"by_backend":               byBackend,
		"solver_time_s":            map[string]float64{"sum": total, "max": maxT},
		"slowest":                  slows,
		"samples":                  samples,
		"vacuity":                  covers,
		"bounded":                  cfg.Bounded,
		"tool_errors":              toolErrs,
		"replayed_findings":        regressions,
		"known_finding_obligations": nknown,
		"failed_obligations_of_other_properties": nother,
		"lemmas":                   cfg.Lemmas,
		"explanation":              "every obligation is one SMT query generated from go/ssa of /repo's working tree and the //@ contracts; 'discharged' counts unsat answers only",
	}
	if samples == nil {
		cov["samples"] = []interface{}{}
	}
	ev := evidence{PropertyID: prop, Tier: tier, Seed: seed, Level: "proof", Coverage: cov, Assumptions: assumptions, WallS: wall, Violations: violations}
	evDir := filepath.Join(verifDir, "evidence")
	if os.Getenv("GOVC_OUT") != "" {
		evDir = filepath.Join(outRoot, "evidence")
	}
	os.MkdirAll(evDir, 0o755)
	b, _ := json.MarshalIndent(ev, "", " ")
	os.WriteFile(filepath.Join(evDir, prop+".json"), b, 0o644)
}

var tagPropRe = regexp.MustCompile(`^(C\d\d)\.`)

func tagProp(tag string) string {
	if m := tagPropRe.FindStringSubmatch(tag); m != nil {
		return m[1]
	}
	return ""
}

// tagProps: a clause tag names the properties it serves: "C12.bounds.high+C01+C09".
func tagProps(tag string) map[string]bool {
	out := map[string]bool{}
	for _, part := range strings.Split(tag, "+") {
		if p := tagProp(part + "."); p != "" {
			out[p] = true
		} else if p := tagProp(part); p != "" {
			out[p] = true
		}
	}
	return out
}

func cmdList(args []string) {
	props, err := loadProps()
	if err != nil {
		fmt.Println(err)
		os.Exit(2)
	}
	for _, k := range sortedKeys(props) {
		fmt.Printf("%s: %d functions, %d lemmas\n", k, len(props[k].Functions), len(props[k].Lemmas))
	}
}
