package main

import (
	"os/exec"
	"path/filepath"
	"fmt"
	"os"
	"strings"

	"golang.org/x/tools/go/ssa"
)

// cmdSelftest runs the must-fail corpus (/verif/seeded) against scratch worktrees of /repo.
func cmdSelftest(args []string) {
	cmd := exec.Command("python3", append([]string{filepath.Join(verifDir, "tools", "selftest.py")}, args...)...)
	cmd.Stdout, cmd.Stderr = os.Stdout, os.Stderr
	if err := cmd.Run(); err != nil {
		os.Exit(1)
	}
}

// inline translates the body of a small, loop-free in-repo function in place (no contract needed):
// the caller is checked against the callee's real body.
func (fg *FG) inline(st *State, callee *ssa.Function, args []Val, bindings []Val, in ssa.Instruction) []Val {
	if fg.inlineDepth >= 3 {
		fg.fail("inlining of %s: nesting too deep (write a contract)", fg.g.keyOf(callee))
	}
	// save the per-function translation state
	saved := struct {
		fn                   *ssa.Function
		R                    map[int]string
		edge                 map[[2]int][]string
		endSt, headSt        map[int]*State
		loopOrd              map[int]int
		loopBlocks           map[int]map[int]bool
		defers               []*ssa.Defer
		deferBlk             []int
		curBlock             int
		curInstr             ssa.Instruction
		namePrefix           string
		inlineEntry          *State
		inlineRets           *[]inlineRet
	}{fg.fn, fg.R, fg.edge, fg.endSt, fg.headSt, fg.loopOrd, fg.loopBlocks, fg.defers, fg.deferBlk, fg.curBlock, fg.curInstr, fg.namePrefix, fg.inlineEntry, fg.inlineRets}
	guard := fg.guard()
	fg.ninline++
	fg.fn = callee
	fg.R = map[int]string{0: guard}
	fg.edge = map[[2]int][]string{}
	fg.endSt = map[int]*State{}
	fg.headSt = map[int]*State{}
	fg.loopOrd = map[int]int{}
	fg.loopBlocks = map[int]map[int]bool{}
	fg.defers, fg.deferBlk = nil, nil
	fg.namePrefix = fmt.Sprintf("%si%d.", saved.namePrefix, fg.ninline)
	fg.inlineEntry = st.clone()
	var rets []inlineRet
	fg.inlineRets = &rets
	fg.inlineDepth++
	restore := func() {
		fg.fn, fg.R, fg.edge, fg.endSt, fg.headSt, fg.loopOrd, fg.loopBlocks = saved.fn, saved.R, saved.edge, saved.endSt, saved.headSt, saved.loopOrd, saved.loopBlocks
		fg.defers, fg.deferBlk, fg.curBlock, fg.curInstr, fg.namePrefix = saved.defers, saved.deferBlk, saved.curBlock, saved.curInstr, saved.namePrefix
		fg.inlineEntry, fg.inlineRets = saved.inlineEntry, saved.inlineRets
		fg.inlineDepth--
	}
	defer restore()
	fg.analyzeLoops()
	if len(fg.loopBlocks) > 0 {
		fg.fail("call to %s: no contract, and the function has loops so it cannot be inlined", fg.g.keyOf(callee))
	}
	if len(callee.Params) != len(args) {
		fg.fail("inlining %s: %d parameters, %d arguments", fg.g.keyOf(callee), len(callee.Params), len(args))
	}
	for i, p := range callee.Params {
		a := args[i]
		a.Ty = p.Type()
		fg.vals[p] = a
	}
	if len(callee.FreeVars) != len(bindings) {
		fg.fail("inlining closure %s: bindings are not statically known", fg.g.keyOf(callee))
	}
	for i, f := range callee.FreeVars {
		fg.vals[f] = bindings[i]
	}
	pkg := fg.g.pkgOfFn(callee)
	for _, b := range fg.order() {
		fg.block(b, pkg)
	}
	// merge the returns
	if len(rets) == 0 {
		// never returns (always panics): the continuation is unreachable
		fg.assume(fmt.Sprintf("(not %s)", guard))
		var out []Val
		for i := 0; i < callee.Signature.Results().Len(); i++ {
			rt := callee.Signature.Results().At(i).Type()
			out = append(out, Val{T: fg.fresh("r.unreach", fg.sorts.sortOf(rt)), Ty: rt})
		}
		return out
	}
	// heaps
	fams := map[string]bool{}
	for _, r := range rets {
		for f := range r.st.heaps {
			fams[f] = true
		}
	}
	for f := range st.heaps {
		fams[f] = true
	}
	merged := map[string]string{}
	for _, f := range sortedKeys(fams) {
		var terms []string
		same := true
		for _, r := range rets {
			t, ok := r.st.heaps[f]
			if !ok {
				t = "H0." + f
				fg.declare(t, fg.heapSort[f])
			}
			terms = append(terms, t)
			if t != terms[0] {
				same = false
			}
		}
		if same {
			merged[f] = terms[0]
			continue
		}
		cur := terms[len(terms)-1]
		for k := len(terms) - 2; k >= 0; k-- {
			cur = fmt.Sprintf("(ite %s %s %s)", rets[k].guard, terms[k], cur)
		}
		merged[f] = cur
	}
	restoreNames := fg.namePrefix
	_ = restoreNames
	for f, t := range merged {
		if st.heaps[f] != t {
			if strings.HasPrefix(t, "(ite") {
				fg.setHeap(st, f, t)
			} else {
				st.heaps[f] = t
			}
		}
	}
	// the continuation is reachable only through one of the returns
	var guards []string
	for _, r := range rets {
		guards = append(guards, r.guard)
	}
	fg.assume(fmt.Sprintf("(=> %s %s)", guard, smtOr(guards)))
	var out []Val
	for i := 0; i < callee.Signature.Results().Len(); i++ {
		rt := callee.Signature.Results().At(i).Type()
		cur := rets[len(rets)-1].results[i].T
		var clo *closureInfo = rets[len(rets)-1].results[i].Clo
		for k := len(rets) - 2; k >= 0; k-- {
			if rets[k].results[i].T == cur {
				continue
			}
			cur = fmt.Sprintf("(ite %s %s %s)", rets[k].guard, rets[k].results[i].T, cur)
		}
		n := fg.define("r.inl", fg.sorts.sortOf(rt), cur)
		out = append(out, Val{T: n, Ty: rt, Clo: clo})
	}
	return out
}
