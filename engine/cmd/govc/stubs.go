package main

import (
	"fmt"
	"os"

	"golang.org/x/tools/go/ssa"
)

func cmdSelftest(args []string) { fmt.Println("not yet"); os.Exit(2) }

func (fg *FG) inline(st *State, callee *ssa.Function, args []Val, bindings []Val, in ssa.Instruction) []Val {
	fg.fail("inlining not implemented")
	return nil
}
