package main

// Contract files: comment-only Go files (//go:build verif) in /repo and *.spec files in
// /verif/contracts. Every line that carries contract text starts with "//@".

import (
	"bufio"
	"fmt"
	"os"
	"path/filepath"
	"regexp"
	"strconv"
	"strings"
)

type Clause struct {
	Tag   string
	Src   string
	E     *SExpr
	File  string
	Line  int
	Leave bool // loop exit clause that also applies to return statements written inside the loop
}

type Contract struct {
	Key       string // e.g. "logreader.fixSize", "logreader.(*cache).put", "logreader.(*cache).put$1"
	Kind      string // "func" | "iface" | "lemma"
	Params    []string
	ParamTys  []string // for lemmas
	Results   []string
	Requires  []Clause
	Ensures   []Clause
	Modifies  []Clause
	ModGiven  bool
	Pure      bool
	Assumed   bool
	MayPanic  bool
	Wrapping  bool
	Exits     map[int][]Clause // loop ordinal -> exit clauses
	CallsOnce string // assumed callee == one call of this closure-typed parameter
	GhostSets [][2]Clause // ghost assignments performed at return
	Allocates bool
	NonblockingTypes map[string]bool // optional: only sends of these element types are checked
	Nonblocking bool // every channel send in the function must find room in the buffer (event loops must never block on a waiter)
	FuncTypes map[string]string // param or Type.field -> "pure"
	Loops     map[int][]Clause
	Steps     map[int][]Clause // per-iteration two-state clauses (prev(e) = value at the loop head)
	Asserts   []Clause
	Uses      []Clause // lemma instantiations at entry
	TypeFacts [][2]string         // typefact <kind> <Type>: a static fact about a type the (assumed) contract presumes; checked where the contract is used
	Before    map[string][]Clause // proof steps checked (then assumed) before calls to the named callee; callee parameter names are in scope
	DeadRets  map[int]bool // returns (by source order) that are unreachable under the contract
	File      string
	Line      int
	Pkg       string
}

type SpecFunc struct {
	Name   string
	Params []SVar
	Ret    string
	Body   *SExpr
	Src    string
	Pkg    string
	File   string
	Line   int
	Uninterp bool
	Axioms []Clause
}

// ChanValue: a value received from a channel of the given element type may be assumed to satisfy
// Assume (sender-side contract); every send of such a value in a function under contract must establish Ensure.
type ChanValue struct {
	Var    string
	Assume *Clause
	Ensure *Clause
	Pkg    string
}

type ContractTable struct {
	C       map[string]*Contract
	Funcs   map[string]*SpecFunc
	Imports map[string]string // alias -> path (informational)
	Axioms  []Clause          // global assumed axioms (listed in evidence)
	Files   []string
	GhostFields map[string]string // "pkg.Type.field" -> type
	Consts  map[string]string
	GhostDefaults map[string]string // ghost field key -> default value of freshly allocated objects
	ChanValues map[string][]ChanValue // element type string -> facts about values travelling through channels of that type
	InitFacts map[string][]Clause // "pkgname.global" -> facts established by the package initialiser (assumed)
	TrustFrame map[string]bool // package paths whose uncontracted functions get an assumed empty frame
	Refines    []Refine
	Volatile   map[string]bool // names of volatile ghost fields (any.<name>)
	Balanced   map[string]bool // names of balanced ghost counters (any.<name>)
}

// Refine: a declared refinement of an interface method contract by a concrete method's contract.
type Refine struct {
	Iface, Impl, File, Pkg string
	Line                   int
	Assuming               []Clause
}

func newContractTable() *ContractTable {
	return &ContractTable{C: map[string]*Contract{}, Funcs: map[string]*SpecFunc{}, Imports: map[string]string{}, GhostFields: map[string]string{}, Consts: map[string]string{}, GhostDefaults: map[string]string{}, ChanValues: map[string][]ChanValue{}, InitFacts: map[string][]Clause{}, TrustFrame: map[string]bool{}}
}

var tagRe = regexp.MustCompile(`^\[([A-Za-z0-9_.:+~\-]+)\]\s*`)
var pkgClauseRe = regexp.MustCompile(`^package\s+(\w+)`)

var clauseKeywords = map[string]bool{"requires": true, "ensures": true, "modifies": true, "pure": true, "assumed": true,
	"functype": true, "loop": true, "results": true, "params": true, "maypanic": true, "wrapping": true, "assert": true, "use": true, "allocates": true,
	"nonblocking": true, "ghostset": true, "callsonce": true, "before": true, "dead": true, "func": true, "iface": true, "lemma": true, "spawn": true, "import": true, "trustframe": true, "refines": true, "assuming": true, "typefact": true, "chanvalue": true, "initfact": true, "axiom": true, "ghostfield": true, "uninterp": true, "const": true}

// loadContractFile parses one file. defaultPkg is used for keys without package qualifier
// (the Go package name of the file for in-repo contract files).
func (ct *ContractTable) loadContractFile(path string) error {
	f, err := os.Open(path)
	if err != nil {
		return err
	}
	defer f.Close()
	ct.Files = append(ct.Files, path)
	sc := bufio.NewScanner(f)
	sc.Buffer(make([]byte, 1<<20), 1<<20)
	defaultPkg := ""
	type rawLine struct {
		text string
		line int
	}
	var lines []rawLine
	ln := 0
	for sc.Scan() {
		ln++
		t := sc.Text()
		ts := strings.TrimSpace(t)
		if m := pkgClauseRe.FindStringSubmatch(ts); m != nil && defaultPkg == "" {
			defaultPkg = m[1]
			continue
		}
		if !strings.HasPrefix(ts, "//@") {
			continue
		}
		body := strings.TrimSpace(ts[3:])
		if body == "" {
			continue
		}
		// strip trailing // comment (not inside string)
		if i := strings.Index(body, " // "); i >= 0 && !strings.Contains(body[:i], "\"") {
			body = strings.TrimSpace(body[:i])
		}
		first := strings.Fields(body)[0]
		if !clauseKeywords[first] && len(lines) > 0 {
			lines[len(lines)-1].text += " " + body
			continue
		}
		lines = append(lines, rawLine{body, ln})
	}
	if strings.HasSuffix(path, ".spec") && defaultPkg == "" {
		defaultPkg = strings.TrimSuffix(filepath.Base(path), ".spec")
	}
	var cur *Contract
	var lastSF *SpecFunc
	mkClause := func(rest string, line int) (Clause, error) {
		tag := ""
		if m := tagRe.FindStringSubmatch(rest); m != nil {
			tag = m[1]
			rest = rest[len(m[0]):]
		}
		e, err := parseSpec(rest)
		if err != nil {
			return Clause{}, fmt.Errorf("%s:%d: %v", path, line, err)
		}
		return Clause{Tag: tag, Src: rest, E: e, File: path, Line: line}, nil
	}
	qualify := func(key string) string {
		// keys: name | (*T).m | (T).m | pkg.name | pkg.(*T).m
		if strings.HasPrefix(key, "(") {
			return defaultPkg + "." + key
		}
		if i := strings.Index(key, "."); i >= 0 && !strings.HasPrefix(key, "(") {
			return key
		}
		return defaultPkg + "." + key
	}
	for _, rl := range lines {
		fields := strings.Fields(rl.text)
		kw := fields[0]
		rest := strings.TrimSpace(strings.TrimPrefix(rl.text, kw))
		switch kw {
		case "import":
			if len(fields) == 3 {
				ct.Imports[fields[1]] = strings.Trim(fields[2], "\"")
			}
		case "refines":
			// refines <interface method contract> by <method contract>: the method's contract implies the
			// interface's for receivers of that type (checked as obligations under the key "refines:I:M")
			if len(fields) != 4 || fields[2] != "by" {
				return fmt.Errorf("%s:%d: bad refines clause", path, rl.line)
			}
			qual := func(k string) string {
				if strings.HasPrefix(k, "(") && defaultPkg != "" {
					return defaultPkg + "." + k
				}
				return k
			}
			ct.Refines = append(ct.Refines, Refine{Iface: fields[1], Impl: qual(fields[3]), File: path, Line: rl.line, Pkg: defaultPkg})
			cur = nil
			lastSF = nil
		case "assuming":
			// assuming <expr>: input validity the refinement takes for granted beyond the interface's
			// preconditions (reported as an assumption)
			if len(ct.Refines) == 0 || cur != nil {
				return fmt.Errorf("%s:%d: 'assuming' must follow a refines clause", path, rl.line)
			}
			c, err := mkClause(rest, rl.line)
			if err != nil {
				return err
			}
			c.File = path
			ct.Refines[len(ct.Refines)-1].Assuming = append(ct.Refines[len(ct.Refines)-1].Assuming, c)
		case "trustframe":
			// trustframe <package path> ...: calls into these (external) packages that have no contract
			// are ASSUMED to write no memory the verified code can see and to return unconstrained values
			// scoped to the functions of the package whose contract file declares it
			for _, f := range fields[1:] {
				ct.TrustFrame[defaultPkg+"|"+strings.Trim(f, "\"")] = true
			}
		case "const":
			// const NAME = value
			parts := strings.SplitN(rest, "=", 2)
			if len(parts) != 2 {
				return fmt.Errorf("%s:%d: bad const", path, rl.line)
			}
			ct.Consts[strings.TrimSpace(parts[0])] = strings.TrimSpace(parts[1])
		case "chanvalue":
			// chanvalue <elemtype> <var> assume|ensure <expr>
			if len(fields) < 5 || (fields[3] != "assume" && fields[3] != "ensure") {
				return fmt.Errorf("%s:%d: bad chanvalue", path, rl.line)
			}
			r2 := strings.TrimSpace(rest[strings.Index(rest, " "+fields[3]+" ")+len(fields[3])+2:])
			c, err := mkClause(r2, rl.line)
			if err != nil {
				return err
			}
			cv := ChanValue{Var: fields[2], Pkg: defaultPkg}
			if fields[3] == "assume" {
				cv.Assume = &c
			} else {
				cv.Ensure = &c
			}
			ct.ChanValues[fields[1]] = append(ct.ChanValues[fields[1]], cv)
		case "initfact":
			// initfact name : expr      (name is a package-level variable of this package)
			parts := strings.SplitN(rest, ":", 2)
			if len(parts) != 2 {
				return fmt.Errorf("%s:%d: bad initfact", path, rl.line)
			}
			c, err := mkClause(strings.TrimSpace(parts[1]), rl.line)
			if err != nil {
				return err
			}
			k := defaultPkg + "." + strings.TrimSpace(parts[0])
			ct.InitFacts[k] = append(ct.InitFacts[k], c)
		case "ghostfield":
			// ghostfield pkg.Type.name Type
			// ghostfield pkg.Type.name Type [= default]
			if len(fields) == 4 && fields[1] == "balanced" && strings.HasPrefix(fields[2], "any.") {
				// ghostfield balanced any.name Type: a ghost counter (locks held) that every function
				// must leave as it found it - at every return and around every loop iteration - unless
				// its contract lists it under modifies; writing it needs no frame permission
				if ct.Balanced == nil {
					ct.Balanced = map[string]bool{}
				}
				ct.Balanced[strings.TrimPrefix(fields[2], "any.")] = true
				ct.GhostFields[fields[2]] = fields[3]
				continue
			}
			if len(fields) == 4 && fields[1] == "volatile" && strings.HasPrefix(fields[2], "any.") {
				// ghostfield volatile any.name Type: a ghost that any call may change (it is forgotten at
				// every call unless the callee's contract says what it becomes); writing it needs no frame
				// permission. Used for "the call just made succeeded" style facts.
				if ct.Volatile == nil {
					ct.Volatile = map[string]bool{}
				}
				ct.Volatile[strings.TrimPrefix(fields[2], "any.")] = true
				ct.GhostFields[fields[2]] = fields[3]
				continue
			}
			if len(fields) == 5 && fields[3] == "=" {
				ct.GhostDefaults[fields[1]] = fields[4]
			} else if len(fields) != 3 {
				return fmt.Errorf("%s:%d: bad ghostfield", path, rl.line)
			}
			ct.GhostFields[fields[1]] = fields[2]
		case "axiom":
			c, err := mkClause(rest, rl.line)
			if err != nil {
				return err
			}
			if lastSF != nil {
				lastSF.Axioms = append(lastSF.Axioms, c)
			} else {
				return fmt.Errorf("%s:%d: axiom must follow an uninterp func", path, rl.line)
			}
			ct.Axioms = append(ct.Axioms, c)
		case "pure", "uninterp":
			if strings.HasPrefix(rest, "func ") {
				sf, err := parseSpecFunc(rest, path, rl.line)
				if err != nil {
					return err
				}
				sf.Pkg = defaultPkg
				sf.Uninterp = kw == "uninterp"
				if _, dup := ct.Funcs[sf.Name]; dup {
					return fmt.Errorf("%s:%d: duplicate spec function %s", path, rl.line, sf.Name)
				}
				ct.Funcs[sf.Name] = sf
				cur = nil
				lastSF = sf
				continue
			}
			if cur == nil {
				return fmt.Errorf("%s:%d: 'pure' outside contract", path, rl.line)
			}
			cur.Pure = true
		case "func", "iface", "lemma", "spawn":
			key := rest
			c := &Contract{Kind: kw, FuncTypes: map[string]string{}, Loops: map[int][]Clause{}, Steps: map[int][]Clause{}, File: path, Line: rl.line, Pkg: defaultPkg}
			if kw == "lemma" {
				// lemma name(x T, y T)
				i := strings.Index(rest, "(")
				if i < 0 {
					return fmt.Errorf("%s:%d: lemma needs parameter list", path, rl.line)
				}
				key = strings.TrimSpace(rest[:i])
				ps := strings.TrimSuffix(strings.TrimSpace(rest[i+1:]), ")")
				for _, p := range splitTop(ps, ',') {
					p = strings.TrimSpace(p)
					if p == "" {
						continue
					}
					ff := strings.Fields(p)
					if len(ff) != 2 {
						return fmt.Errorf("%s:%d: bad lemma parameter %q", path, rl.line, p)
					}
					c.Params = append(c.Params, ff[0])
					c.ParamTys = append(c.ParamTys, ff[1])
				}
				c.Key = "lemma." + key
			} else {
				// allow a trailing signature-like remainder after the key: only first token is the key
				key = strings.Fields(rest)[0]
				c.Key = qualify(key)
				if kw == "spawn" {
					// "spawn K": the ghost effect of a `go K(...)` statement on the spawning function's state
					// (a bookkeeping model, applied where such a statement is executed; assumed by nature)
					c.Kind = "func"
					c.Assumed = true
					c.Key = "spawn:" + c.Key
				}
			}
			if _, dup := ct.C[c.Key]; dup {
				return fmt.Errorf("%s:%d: duplicate contract for %s", path, rl.line, c.Key)
			}
			ct.C[c.Key] = c
			cur = c
			lastSF = nil
		default:
			if cur == nil {
				return fmt.Errorf("%s:%d: clause %q outside contract", path, rl.line, kw)
			}
			switch kw {
			case "requires", "ensures", "assert", "use":
				c, err := mkClause(rest, rl.line)
				if err != nil {
					return err
				}
				switch kw {
				case "requires":
					cur.Requires = append(cur.Requires, c)
				case "ensures":
					cur.Ensures = append(cur.Ensures, c)
				case "assert":
					cur.Asserts = append(cur.Asserts, c)
				case "use":
					cur.Uses = append(cur.Uses, c)
				}
			case "modifies":
				cur.ModGiven = true
				if rest == "nothing" {
					continue
				}
				for _, part := range splitTop(rest, ',') {
					c, err := mkClause(strings.TrimSpace(part), rl.line)
					if err != nil {
						return err
					}
					cur.Modifies = append(cur.Modifies, c)
				}
			case "typefact":
				// typefact plainjson <Type>
				switch {
				case len(fields) == 3 && fields[1] == "plainjson":
					cur.TypeFacts = append(cur.TypeFacts, [2]string{fields[1], fields[2]})
				case len(fields) == 4 && fields[1] == "method":
					// typefact method <*pkg.T>.<m> <function key>: the method m of that type IS that function
					cur.TypeFacts = append(cur.TypeFacts, [2]string{"method", fields[2] + " " + fields[3]})
				case len(fields) >= 4 && fields[1] == "initcall":
					// typefact initcall <global> <function key> [<int constant> ...]: the package-level variable
					// is initialised, by its declaration, with exactly this call
					cur.TypeFacts = append(cur.TypeFacts, [2]string{"initcall", strings.Join(fields[2:], " ")})
				case len(fields) == 4 && fields[1] == "implements":
					// typefact implements <T> <I>: T's method set satisfies interface I
					cur.TypeFacts = append(cur.TypeFacts, [2]string{"implements", fields[2] + " " + fields[3]})
				default:
					return fmt.Errorf("%s:%d: bad typefact clause (known kinds: plainjson T | method T.m key | implements T I | initcall G f consts)", path, rl.line)
				}
			case "before":
				// before <calleeKey> assert [tag] expr
				if len(fields) < 4 || fields[2] != "assert" {
					return fmt.Errorf("%s:%d: bad before clause", path, rl.line)
				}
				r2 := strings.TrimSpace(rest[strings.Index(rest, " assert ")+len(" assert "):])
				c, err := mkClause(r2, rl.line)
				if err != nil {
					return err
				}
				if cur.Before == nil {
					cur.Before = map[string][]Clause{}
				}
				cur.Before[fields[1]] = append(cur.Before[fields[1]], c)
			case "dead":
				// dead return N
				if len(fields) != 3 || fields[1] != "return" {
					return fmt.Errorf("%s:%d: bad dead clause", path, rl.line)
				}
				n, err := strconv.Atoi(fields[2])
				if err != nil {
					return fmt.Errorf("%s:%d: bad return ordinal", path, rl.line)
				}
				if cur.DeadRets == nil {
					cur.DeadRets = map[int]bool{}
				}
				cur.DeadRets[n] = true
			case "assumed":
				cur.Assumed = true
			case "maypanic":
				cur.MayPanic = true
			case "nonblocking":
				cur.Nonblocking = true
				for _, t := range fields[1:] {
					if cur.NonblockingTypes == nil {
						cur.NonblockingTypes = map[string]bool{}
					}
					cur.NonblockingTypes[t] = true
				}
			case "wrapping":
				cur.Wrapping = true
			case "callsonce":
				cur.CallsOnce = strings.TrimSpace(rest)
			case "ghostset":
				// ghostset <ghost location> = <expr>: performed at every return, before the postconditions
				eq := strings.Index(rest, " = ")
				if eq < 0 {
					return fmt.Errorf("%s:%d: bad ghostset", path, rl.line)
				}
				lhs, err := mkClause(strings.TrimSpace(rest[:eq]), rl.line)
				if err != nil {
					return err
				}
				rhs, err := mkClause(strings.TrimSpace(rest[eq+3:]), rl.line)
				if err != nil {
					return err
				}
				cur.GhostSets = append(cur.GhostSets, [2]Clause{lhs, rhs})
			case "allocates":
				cur.Allocates = true
			case "results":
				for _, r := range strings.Split(rest, ",") {
					cur.Results = append(cur.Results, strings.TrimSpace(r))
				}
			case "params":
				for _, r := range strings.Split(rest, ",") {
					cur.Params = append(cur.Params, strings.TrimSpace(r))
				}
			case "functype":
				// functype f pure
				if len(fields) < 3 {
					return fmt.Errorf("%s:%d: bad functype", path, rl.line)
				}
				cur.FuncTypes[strings.TrimSuffix(fields[1], ":")] = fields[2]
			case "loop":
				// loop N invariant [tag] expr
				if len(fields) < 4 || (fields[2] != "invariant" && fields[2] != "step" && fields[2] != "exit" && fields[2] != "leave") {
					return fmt.Errorf("%s:%d: bad loop clause", path, rl.line)
				}
				n, err := strconv.Atoi(fields[1])
				if err != nil {
					return fmt.Errorf("%s:%d: bad loop ordinal", path, rl.line)
				}
				r2 := strings.TrimSpace(rest[strings.Index(rest, fields[2])+len(fields[2]):])
				c, err := mkClause(r2, rl.line)
				if err != nil {
					return err
				}
				if fields[2] == "step" {
					cur.Steps[n] = append(cur.Steps[n], c)
				} else if fields[2] == "exit" {
					// loop N exit e: must hold whenever control leaves the loop other than by a return
					// statement written inside the loop (evaluated with the loop's local variables)
					if cur.Exits == nil {
						cur.Exits = map[int][]Clause{}
					}
					cur.Exits[n] = append(cur.Exits[n], c)
				} else if fields[2] == "leave" {
					// loop N leave e: like exit, but return statements written inside the loop count too
					if cur.Exits == nil {
						cur.Exits = map[int][]Clause{}
					}
					c.Leave = true
					cur.Exits[n] = append(cur.Exits[n], c)
				} else {
					cur.Loops[n] = append(cur.Loops[n], c)
				}
			}
		}
	}
	return nil
}

func splitTop(s string, sep byte) []string {
	var out []string
	depth := 0
	last := 0
	for i := 0; i < len(s); i++ {
		switch s[i] {
		case '(', '[', '{':
			depth++
		case ')', ']', '}':
			depth--
		default:
			if s[i] == sep && depth == 0 {
				out = append(out, s[last:i])
				last = i + 1
			}
		}
	}
	out = append(out, s[last:])
	return out
}

// parseSpecFunc parses: func name(a T, b U) R = expr     (or without "= expr" for uninterpreted)
func parseSpecFunc(s, path string, line int) (*SpecFunc, error) {
	s = strings.TrimSpace(strings.TrimPrefix(s, "func "))
	i := strings.Index(s, "(")
	if i < 0 {
		return nil, fmt.Errorf("%s:%d: bad spec func", path, line)
	}
	name := strings.TrimSpace(s[:i])
	depth := 0
	j := i
	for ; j < len(s); j++ {
		if s[j] == '(' {
			depth++
		}
		if s[j] == ')' {
			depth--
			if depth == 0 {
				break
			}
		}
	}
	ps := s[i+1 : j]
	rest := strings.TrimSpace(s[j+1:])
	sf := &SpecFunc{Name: name, File: path, Line: line}
	for _, p := range splitTop(ps, ',') {
		p = strings.TrimSpace(p)
		if p == "" {
			continue
		}
		ff := strings.Fields(p)
		if len(ff) != 2 {
			return nil, fmt.Errorf("%s:%d: bad spec func parameter %q", path, line, p)
		}
		sf.Params = append(sf.Params, SVar{ff[0], ff[1]})
	}
	// fill types for "a, b T" style
	eq := strings.Index(rest, "=")
	if eq < 0 {
		sf.Ret = strings.TrimSpace(rest)
		return sf, nil
	}
	sf.Ret = strings.TrimSpace(rest[:eq])
	sf.Src = strings.TrimSpace(rest[eq+1:])
	e, err := parseSpec(sf.Src)
	if err != nil {
		return nil, fmt.Errorf("%s:%d: %v", path, line, err)
	}
	sf.Body = e
	return sf, nil
}

// loadAllContracts loads every zz_contracts_verif.go under repo and every *.spec under dirs.
func loadAllContracts(repo string, specDirs []string) (*ContractTable, error) {
	ct := newContractTable()
	var files []string
	filepath.Walk(repo, func(p string, info os.FileInfo, err error) error {
		if err != nil {
			return nil
		}
		if info.IsDir() && (info.Name() == ".git" || info.Name() == "node_modules") {
			return filepath.SkipDir
		}
		if !info.IsDir() && info.Name() == "zz_contracts_verif.go" {
			files = append(files, p)
		}
		return nil
	})
	for _, d := range specDirs {
		m, _ := filepath.Glob(filepath.Join(d, "*.spec"))
		files = append(files, m...)
	}
	for _, f := range files {
		if err := ct.loadContractFile(f); err != nil {
			return nil, err
		}
	}
	return ct, nil
}
