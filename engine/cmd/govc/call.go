package main

import (
	"reflect"
	"fmt"
	"go/token"
	"go/types"
	"strings"

	"golang.org/x/tools/go/ssa"
	"golang.org/x/tools/go/ssa/ssautil"
)

func (fg *FG) cellClosure(l *Loc, ci *closureInfo) {
	if fg.g.cloCells == nil {
		fg.g.cloCells = map[*FG]map[string]*closureInfo{}
	}
	if fg.g.cloCells[fg] == nil {
		fg.g.cloCells[fg] = map[string]*closureInfo{}
	}
	fg.g.cloCells[fg][l.Heap+"@"+l.Ref] = ci
}

func (fg *FG) closureAt(l *Loc) *closureInfo {
	if fg.g.cloCells == nil || fg.g.cloCells[fg] == nil {
		return nil
	}
	return fg.g.cloCells[fg][l.Heap+"@"+l.Ref]
}

// paramNames returns the names by which a contract refers to the parameters (receiver first).
func (fg *FG) paramNames(c *Contract, fn *ssa.Function, sig *types.Signature, invoke bool) []string {
	if c != nil && len(c.Params) > 0 {
		return c.Params
	}
	var names []string
	if fn != nil && len(fn.Params) > 0 {
		for _, p := range fn.Params {
			names = append(names, p.Name())
		}
		return names
	}
	if sig.Recv() != nil {
		n := sig.Recv().Name()
		if n == "" || n == "_" {
			n = "recv"
		}
		names = append(names, n)
	}
	for i := 0; i < sig.Params().Len(); i++ {
		n := sig.Params().At(i).Name()
		if n == "" || n == "_" {
			n = fmt.Sprintf("arg%d", i)
		}
		names = append(names, n)
	}
	return names
}

func resultNames(c *Contract, sig *types.Signature) []string {
	if c != nil && len(c.Results) > 0 {
		return c.Results
	}
	n := sig.Results().Len()
	var names []string
	for i := 0; i < n; i++ {
		nm := sig.Results().At(i).Name()
		if nm == "" || nm == "_" {
			if n == 1 {
				nm = "result"
			} else {
				nm = fmt.Sprintf("result%d", i)
			}
		}
		names = append(names, nm)
	}
	return names
}

// call translates a call (also used for defer and go).
// call applies the call rule, then copies back the cells that stand in for interior addresses
// passed to the callee inside an interface value (copy-in/copy-out, see MakeInterface).
func (fg *FG) call(st *State, cc *ssa.CallCommon, in ssa.Instruction, resultOf ssa.Value) []Val {
	res := fg.call0(st, cc, in, resultOf)
	for _, a := range cc.Args {
		for _, co := range fg.copyOut[a] {
			fg.store(st, co.orig, fg.load(st, co.cell))
		}
	}
	return res
}

type copyOutInfo struct{ orig, cell *Loc }

func (fg *FG) call0(st *State, cc *ssa.CallCommon, in ssa.Instruction, resultOf ssa.Value) []Val {
	sig := cc.Signature()
	// builtins
	if b, ok := cc.Value.(*ssa.Builtin); ok {
		return fg.builtin(st, b, cc, in)
	}
	var args []Val
	var callee *ssa.Function
	var c *Contract
	var ckey string
	var pkg *types.Package
	if cc.IsInvoke() {
		recv := fg.val(cc.Value)
		fg.safe("nil", in, fmt.Sprintf("(not (= %s %s))", recv.T, ifaceNil))
		args = append(args, recv)
		ckey = fg.g.ifaceKey(cc.Value.Type(), cc.Method.Name())
		c = fg.g.ct.C[ckey]
		if c == nil {
			// try embedded / any interface declaring this method with a contract
			c = fg.g.findIfaceContract(cc.Value.Type(), cc.Method.Name())
		}
		if cc.Method.Pkg() != nil {
			pkg = cc.Method.Pkg()
		}
	} else {
		callee = cc.StaticCallee()
		fv := fg.val(cc.Value)
		if callee == nil && fv.Clo != nil {
			callee = fv.Clo.fn
		}
		if callee == nil {
			// a package-level function variable that is set once, by its declaration, to a named
			// function and never assigned in the loaded program (var LatestKeyLen = V1Len)
			if u, ok := cc.Value.(*ssa.UnOp); ok && u.Op == token.MUL {
				if g, ok := u.X.(*ssa.Global); ok {
					callee = fg.g.constFuncVar(g)
					if callee != nil {
						fg.usedAssumed[fmt.Sprintf("funcvar:%s = %s", g.RelString(nil), callee.RelString(nil))] = true
					}
				}
			}
		}
		if callee != nil {
			ckey = fg.g.keyOf(callee)
			c = fg.g.contractFor(callee)
			if callee.Pkg != nil {
				pkg = callee.Pkg.Pkg
			} else if callee.Origin() != nil && callee.Origin().Pkg != nil {
				pkg = callee.Origin().Pkg.Pkg
			} else if callee.Parent() != nil && callee.Parent().Pkg != nil {
				pkg = callee.Parent().Pkg.Pkg
			}
			// closure bindings become leading (free variable) arguments
		} else {
			// dynamic call of a function value
			return fg.dynCall(st, cc, in, fv)
		}
	}
	for _, a := range cc.Args {
		args = append(args, fg.val(a))
	}
	// a contract specialised for the dynamic type of an interface argument: key<T>
	if ckey != "" {
		for _, a := range args {
			if a.DynTy != nil {
				k := ckey + "<" + types.TypeString(a.DynTy, func(p *types.Package) string { return p.Name() }) + ">"
				if sc := fg.g.ct.C[k]; sc != nil {
					c = sc
					ckey = k
					break
				}
			}
		}
	}
	cloVal := Val{}
	if !cc.IsInvoke() {
		cloVal = fg.val(cc.Value)
	}
	invoke := cc.IsInvoke()
	// "callsonce f": the (assumed) callee is modelled as exactly one call of its argument f, a closure
	// taking no parameters, whose results become the callee's results
	if c != nil && c.CallsOnce != "" {
		pn := fg.paramNames(c, callee, sig, cc.IsInvoke())
		idx := -1
		for i, n := range pn {
			if n == c.CallsOnce {
				idx = i
			}
		}
		if idx < 0 || idx >= len(args) || args[idx].Clo == nil {
			fg.fail("call to %s: callsonce %s needs a statically known closure argument", ckey, c.CallsOnce)
		}
		fg.usedAssumed[c.Key] = true
		cloVal = args[idx]
		callee = cloVal.Clo.fn
		if callee.Signature.Params().Len() != 0 || callee.Signature.Results().Len() != sig.Results().Len() {
			fg.fail("call to %s: callsonce closure must take no parameters and return what the callee returns", ckey)
		}
		ckey = fg.g.keyOf(callee)
		c = fg.g.contractFor(callee)
		sig = callee.Signature
		args = nil
		invoke = false
		if callee.Parent() != nil && callee.Parent().Pkg != nil {
			pkg = callee.Parent().Pkg.Pkg
		}
	}
	if c == nil && len(fg.g.ct.TrustFrame) > 0 {
		// uncontracted call into a package declared trustframe: assumed empty frame, unconstrained result
		ppath := ""
		if callee != nil && callee.Pkg != nil {
			ppath = callee.Pkg.Pkg.Path()
		} else if callee != nil && callee.Origin() != nil && callee.Origin().Pkg != nil {
			ppath = callee.Origin().Pkg.Pkg.Path()
		} else if cc.IsInvoke() && cc.Method.Pkg() != nil {
			ppath = cc.Method.Pkg().Path()
		}
		if ppath != "" && fg.c != nil && fg.g.ct.TrustFrame[fg.c.Pkg+"|"+ppath] && !(callee != nil && fg.g.inRepo(callee)) {
			c = &Contract{Kind: "func", Key: ckey, Assumed: true, ModGiven: true, FuncTypes: map[string]string{}, Loops: map[int][]Clause{}, Steps: map[int][]Clause{}, Pkg: "", File: "trustframe " + ppath}
			fg.usedAssumed["trustframe:"+ckey] = true
		}
	}
	if c == nil {
		if callee != nil && callee.Blocks != nil && fg.g.inRepo(callee) && fg.g.canInline(callee) {
			var bindings []Val
			if fv := cloVal; fv.Clo != nil {
				bindings = fv.Clo.bindings
			}
			return fg.inline(st, callee, args, bindings, in)
		}
		fg.fail("call to %s: no contract (write one, or an assumed contract for a dependency)", ckey)
	}
	if c.Assumed {
		fg.usedAssumed[c.Key] = true
	} else if c.Kind == "iface" {
		fg.usedAssumed["iface:"+c.Key] = true
	}
	fg.g.noteCallee(fg, c)
	names := fg.paramNames(c, callee, sig, invoke)
	if len(names) != len(args) {
		// variadic or mismatch
		fg.fail("call to %s: contract names %d parameters, call has %d", ckey, len(names), len(args))
	}
	env := &Env{fg: fg, vars: map[string]Val{}, st: st, pkg: pkg}
	if p := fg.g.pkgByName(c.Pkg); p != nil && pkg == nil {
		env.pkg = p
	}
	if callee != nil {
		if tps, tas := callee.TypeParams(), callee.TypeArgs(); tps != nil && len(tas) == tps.Len() {
			env.tsubst = map[string]types.Type{}
			for i := 0; i < tps.Len(); i++ {
				env.tsubst[tps.At(i).Obj().Name()] = tas[i]
			}
		}
	}
	for i, n := range names {
		env.vars[n] = args[i]
	}
	// closure free variables are visible by name in the closure's contract
	if callee != nil && len(callee.FreeVars) > 0 {
		fv := cloVal
		if fv.Clo == nil || len(fv.Clo.bindings) != len(callee.FreeVars) {
			fg.fail("call of closure %s whose bindings are not statically known", ckey)
		}
		for i, f := range callee.FreeVars {
			env.vars[f.Name()] = fg.freeVarForSpec(fv.Clo.bindings[i], f)
		}
	}
	label := fg.instrLabel(in)
	// function-typed arguments bound to parameters declared pure: axiomatise the passed closure
	for i, n := range names {
		if mode, ok := c.FuncTypes[n]; ok && mode == "pure" {
			env.vars[n] = fg.pureFuncArg(st, args[i], label)
		}
	}
	fg.beforeCall(st, c, env, in, label)
	fg.typeFacts(c, env, in, label)
	// preconditions
	for k, r := range c.Requires {
		t := env.tr(r.E)
		nm := fmt.Sprintf("pre:%s#%s@%s", c.Key, clauseName(r, k), label)
		fg.oblig("pre", nm, r.Tag, fg.guard(), t.T, r.Src, fg.posOf(instrPos(in)))
	}
	// effects
	pre := st.clone()
	{
		// callee may allocate: bump the allocation pointer monotonically
		a := fg.heap(st, "$alloc", "Int")
		na := fg.havocHeap(st, "$alloc")
		fg.assume(fmt.Sprintf("(>= %s %s)", na, a))
	}
	fg.applyModifies(st, c, env, in)
	fg.forgetLastSel(st, c)
	// results
	rnames := resultNames(c, sig)
	var results []Val
	for i := 0; i < sig.Results().Len(); i++ {
		rt := sig.Results().At(i).Type()
		var rv Val
		if c.Pure && fg.g.pureUF {
			rv = Val{T: fg.fresh("r."+sanitize(rnames[i]), fg.sorts.sortOf(rt)), Ty: rt}
		} else {
			rv = Val{T: fg.fresh("r."+sanitize(rnames[i]), fg.sorts.sortOf(rt)), Ty: rt}
		}
		fg.assumeTyped(rv, st)
		results = append(results, rv)
		env.vars[rnames[i]] = rv
		if sig.Results().Len() == 1 {
			env.vars["result"] = rv
		}
	}
	env.st = st
	env.old = pre
	for _, q := range c.Ensures {
		t := env.tr(q.E)
		fg.curGroup = groupOf(q.Tag)
		fg.assume(fmt.Sprintf("(=> %s %s)", fg.guard(), t.T))
		fg.curGroup = ""
	}
	return results
}

func clauseName(c Clause, k int) string {
	if c.Tag != "" {
		return c.Tag
	}
	return fmt.Sprint(k)
}

// freeVarForSpec: free variables of closures are pointers to captured variables; in contracts the
// free variable name denotes the pointer (use *x for the value) unless it is captured by value.
func (fg *FG) freeVarForSpec(b Val, f *ssa.FreeVar) Val {
	return b
}

// pureFuncArg returns a fresh function value whose applications are axiomatised by the
// postconditions of the (pure) closure or function passed.
func (fg *FG) pureFuncArg(st *State, a Val, label string) Val {
	if a.Clo == nil {
		// an opaque function value (e.g. our own parameter): pass through
		return a
	}
	fn := a.Clo.fn
	c := fg.g.contractFor(fn)
	if c == nil {
		fg.fail("function value %s passed as a pure function has no contract", fg.g.keyOf(fn))
	}
	if !c.Pure {
		fg.fail("function %s passed as a pure function is not declared pure", c.Key)
	}
	fg.g.noteCallee(fg, c)
	sig := fn.Signature
	fv := fg.fresh("fv."+sanitize(fn.Name()), "Int")
	fg.assume(fmt.Sprintf("(> %s 0)", fv))
	// forall params: requires ==> ensures[result := apply(fv, params)]
	env := &Env{fg: fg, vars: map[string]Val{}, st: st, old: st}
	if fn.Pkg != nil {
		env.pkg = fn.Pkg.Pkg
	} else if fn.Parent() != nil && fn.Parent().Pkg != nil {
		env.pkg = fn.Parent().Pkg.Pkg
	}
	for i, f := range fn.FreeVars {
		if i < len(a.Clo.bindings) {
			env.vars[f.Name()] = a.Clo.bindings[i]
		}
	}
	emit := func(absolute bool) bool {
		var binders, bnames []string
		var args []Val
		var guards []string
		rewrote := false
		for _, p := range fn.Params {
			fg.nfresh++
			bn := fmt.Sprintf("q.%s!%d", sanitize(p.Name()), fg.nfresh)
			srt := fg.sorts.sortOf(p.Type())
			binders = append(binders, fmt.Sprintf("(%s %s)", bn, srt))
			bnames = append(bnames, bn)
			term := bn
			if absolute && isInteger(p.Type()) {
				for _, cl := range append(append([]Clause{}, c.Requires...), c.Ensures...) {
					if sl := findSliceIndexedBy(cl.E, p.Name()); sl != nil && !mentions(sl, p.Name()) {
						ok := false
						func() {
							defer func() {
								if r := recover(); r != nil {
									if _, isG := r.(genErr); !isG {
										panic(r)
									}
								}
							}()
							sv := env.tr(sl)
							if sv.Ty != nil {
								if _, isS := sv.Ty.Underlying().(*types.Slice); isS {
									term = fmt.Sprintf("(- %s (s.off %s))", bn, sv.T)
									ok = true
								}
							}
						}()
						if ok {
							rewrote = true
							break
						}
					}
				}
			}
			v := Val{T: term, Ty: p.Type()}
			env.vars[p.Name()] = v
			args = append(args, v)
			if f := fg.sorts.rangeFact(p.Type(), term); f != "" {
				guards = append(guards, f)
			}
		}
		if absolute && !rewrote {
			return false
		}
		app := fg.applyFuncValue(Val{T: fv, Ty: a.Ty}, sig, args)
		rn := resultNames(c, sig)
		env.vars[rn[0]] = app
		env.vars["result"] = app
		var pres, posts []string
		for _, r := range c.Requires {
			pres = append(pres, env.tr(r.E).T)
		}
		for _, q := range c.Ensures {
			posts = append(posts, env.tr(q.E).T)
		}
		pres = append(guards, pres...)
		body := fmt.Sprintf("(=> %s %s)", smtAnd(pres), smtAnd(posts))
		if absolute {
			pats := inferPatterns(body, bnames)
			if len(pats) == 0 {
				return false
			}
			fg.assume(fmt.Sprintf("(forall (%s) (! %s %s))", strings.Join(binders, " "), body, strings.Join(pats, " ")))
			return true
		}
		fg.assume(fmt.Sprintf("(forall (%s) (! %s :pattern (%s)))", strings.Join(binders, " "), body, app.T))
		return true
	}
	emit(false)
	emit(true)
	return Val{T: fv, Ty: a.Ty, Clo: a.Clo}
}

// dynCall: call through a function value that is a parameter, field or loaded value.
func (fg *FG) dynCall(st *State, cc *ssa.CallCommon, in ssa.Instruction, f Val) []Val {
	sig := cc.Signature()
	name := fg.funcValueName(cc.Value)
	mode := ""
	if fg.c != nil {
		mode = fg.c.FuncTypes[name]
	}
	if mode == "" {
		// field-level declaration: functype Type.field pure (global)
		mode = fg.g.fieldFuncType(cc.Value)
	}
	var args []Val
	for _, a := range cc.Args {
		args = append(args, fg.val(a))
	}
	if mode == "pure" {
		fg.safe("nil", in, fmt.Sprintf("(not (= %s 0))", f.T))
		return []Val{fg.applyFuncValue(f, sig, args)}
	}
	// function-type contract declared for the parameter: "functype name <contractKey>"
	if mode != "" {
		c := fg.g.ct.C[mode]
		if c == nil {
			c = fg.g.ct.C[fg.c.Pkg+"."+mode]
		}
		if c == nil {
			fg.fail("functype %s refers to unknown contract %s", name, mode)
		}
		extra := map[string]Val{"self": f}
		// the caller's parameters are visible to function-type contracts under "caller.<name>"-free
		// plain names when they do not clash with the contract's own parameters
		for n, v := range fg.params {
			clash := n == "self"
			for _, pn := range c.Params {
				if pn == n {
					clash = true
				}
			}
			if !clash {
				extra[n] = v
			}
		}
		return fg.applyContract(st, c, nil, sig, args, in, extra)
	}
	// a named function type with a contract of its own (e.g. context.CancelFunc)
	if nt, ok := types.Unalias(cc.Value.Type()).(*types.Named); ok && nt.Obj().Pkg() != nil {
		if c := fg.g.ct.C[nt.Obj().Pkg().Name()+"."+nt.Obj().Name()]; c != nil {
			return fg.applyContract(st, c, nil, sig, args, in, map[string]Val{"self": f})
		}
	}
	fg.fail("call through function value %q without a functype declaration", name)
	return nil
}

// funcValueName finds the source-level name of a function value (parameter, captured variable or field).
func (fg *FG) funcValueName(v ssa.Value) string {
	switch x := v.(type) {
	case *ssa.Parameter:
		return x.Name()
	case *ssa.FreeVar:
		return x.Name()
	case *ssa.UnOp:
		switch y := x.X.(type) {
		case *ssa.Alloc:
			return y.Comment
		case *ssa.FreeVar:
			return y.Name()
		case *ssa.FieldAddr:
			pt := types.Unalias(y.X.Type()).Underlying().(*types.Pointer)
			s, _ := structOf(pt.Elem())
			tn := shortTypeBase(pt.Elem())
			return tn + "." + s.Field(y.Field).Name()
		}
	case *ssa.Field:
		s, _ := structOf(x.X.Type())
		return shortTypeBase(x.X.Type()) + "." + s.Field(x.Field).Name()
	case *ssa.Phi:
		return x.Comment
	case *ssa.Extract:
		// one of several results of a call: named as the callee's contract names that result
		if call, ok := x.Tuple.(*ssa.Call); ok {
			if callee := call.Call.StaticCallee(); callee != nil {
				if c := fg.g.contractFor(callee); c != nil && x.Index < len(c.Results) {
					return c.Results[x.Index]
				}
			}
		}
	}
	return v.Name()
}

func shortTypeBase(t types.Type) string {
	if n, ok := types.Unalias(t).(*types.Named); ok {
		return n.Obj().Name()
	}
	return shortTypeName(t)
}

// typeFacts checks the static type facts an (assumed) contract presumes, where the contract is used.
// plainjson T: encoding/json transmits every field of struct T unconditionally - all fields exported,
// no "-", "omitempty", "omitzero" or "string" tag options, recursively for struct-typed fields - which
// is what makes "Unmarshal(Marshal(v)) yields v, whatever the target held before" true for T.
func (fg *FG) typeFacts(c *Contract, env *Env, in ssa.Instruction, label string) {
	for _, tf := range c.TypeFacts {
		why := ""
		if tf[0] == "method" {
			// "<type>.<method> <key>": method lookup on the type resolves to the function with that key
			parts := strings.Fields(tf[1])
			i := strings.LastIndex(parts[0], ".")
			t, _ := env.resolveType(parts[0][:i])
			if t == nil {
				why = "cannot resolve type"
			} else {
				sel := types.NewMethodSet(t).Lookup(nil, parts[0][i+1:])
				if sel == nil {
					if n, ok := types.Unalias(t).(*types.Pointer); ok {
						if nn, ok := types.Unalias(n.Elem()).(*types.Named); ok {
							sel = types.NewMethodSet(t).Lookup(nn.Obj().Pkg(), parts[0][i+1:])
						}
					}
				}
				if sel == nil {
					why = "no such method"
				} else if f := fg.g.prog.FuncValue(sel.Obj().(*types.Func)); f == nil || fg.g.keyOf(f) != parts[1] {
					got := "?"
					if f != nil {
						got = fg.g.keyOf(f)
					}
					why = "the method is " + got
				}
			}
			goal := "true"
			src := "typefact method " + tf[1]
			if why != "" {
				goal = fg.failedFact()
				src += ": " + why
			}
			fg.oblig("pre", fmt.Sprintf("pre:%s#typefact.method.%s@%s", c.Key, sanitize(parts[0]), label), "", fg.guard(), goal, src, fg.posOf(instrPos(in)))
			continue
		}
		if tf[0] == "initcall" {
			parts := strings.Fields(tf[1])
			why = fg.g.initCallFact(c.Pkg, parts[0], parts[1], parts[2:])
			goal := "true"
			src := "typefact initcall " + tf[1]
			if why != "" {
				goal = fg.failedFact()
				src += ": " + why
			}
			fg.oblig("pre", fmt.Sprintf("pre:%s#typefact.initcall.%s@%s", c.Key, sanitize(parts[0]), label), "", fg.guard(), goal, src, fg.posOf(instrPos(in)))
			continue
		}
		if tf[0] == "implements" {
			// "<type> <interface>": the type's method set satisfies the interface (what a run-time
			// type assertion to that interface decides)
			parts := strings.Fields(tf[1])
			var t, it types.Type
			if len(parts) == 2 {
				t, _ = env.resolveType(parts[0])
				it, _ = env.resolveType(parts[1])
			}
			if t == nil || it == nil {
				why = "cannot resolve type"
			} else if iface, ok := types.Unalias(it).Underlying().(*types.Interface); !ok {
				why = parts[1] + " is not an interface"
			} else if m, wrong := types.MissingMethod(t, iface, true); m != nil {
				why = "missing method " + m.Name()
				if wrong {
					why = "method " + m.Name() + " has a different signature"
				}
			}
			goal := "true"
			src := "typefact implements " + tf[1]
			if why != "" {
				goal = fg.failedFact()
				src += ": " + why
			}
			fg.oblig("pre", fmt.Sprintf("pre:%s#typefact.implements.%s@%s", c.Key, sanitize(tf[1]), label), "", fg.guard(), goal, src, fg.posOf(instrPos(in)))
			continue
		}
		t, _ := env.resolveType(tf[1])
		if t == nil {
			why = "cannot resolve type"
		} else {
			why = plainJSON(t, map[types.Type]bool{})
		}
		goal := "true"
		src := fmt.Sprintf("typefact %s %s", tf[0], tf[1])
		if why != "" {
			goal = fg.failedFact()
			src += ": " + why
		}
		fg.oblig("pre", fmt.Sprintf("pre:%s#typefact.%s.%s@%s", c.Key, tf[0], sanitize(tf[1]), label), "", fg.guard(), goal, src, fg.posOf(instrPos(in)))
	}
}

func plainJSON(t types.Type, seen map[types.Type]bool) string {
	if seen[t] {
		return ""
	}
	seen[t] = true
	// a type with its own MarshalJSON (time.Time, ...) is one opaque value
	for _, mt := range []types.Type{t, types.NewPointer(t)} {
		ms := types.NewMethodSet(mt)
		for i := 0; i < ms.Len(); i++ {
			if ms.At(i).Obj().Name() == "MarshalJSON" {
				return ""
			}
		}
	}
	switch u := types.Unalias(t).Underlying().(type) {
	case *types.Pointer:
		return plainJSON(u.Elem(), seen)
	case *types.Slice:
		return plainJSON(u.Elem(), seen)
	case *types.Array:
		return plainJSON(u.Elem(), seen)
	case *types.Map:
		return plainJSON(u.Elem(), seen)
	case *types.Struct:
		names := map[string]bool{}
		for i := 0; i < u.NumFields(); i++ {
			f := u.Field(i)
			jn := strings.Split(reflect.StructTag(u.Tag(i)).Get("json"), ",")[0]
			if jn == "" {
				jn = f.Name()
			}
			if names[strings.ToLower(jn)] {
				return fmt.Sprintf("two fields of %s share the json name %q", t, jn)
			}
			names[strings.ToLower(jn)] = true
			if !f.Exported() {
				return fmt.Sprintf("field %s of %s is not exported (not transmitted)", f.Name(), t)
			}
			tag := reflect.StructTag(u.Tag(i)).Get("json")
			parts := strings.Split(tag, ",")
			if parts[0] == "-" && len(parts) == 1 {
				return fmt.Sprintf("field %s of %s is excluded by its json tag", f.Name(), t)
			}
			for _, o := range parts[1:] {
				if o == "omitempty" || o == "omitzero" || o == "string" {
					return fmt.Sprintf("field %s of %s has the json option %q", f.Name(), t, o)
				}
			}
			if w := plainJSON(f.Type(), seen); w != "" {
				return w
			}
		}
	}
	return ""
}

// beforeCall checks the "before <callee> assert" steps of the caller's contract attached to callee c.
func (fg *FG) beforeCall(st *State, c *Contract, env *Env, in ssa.Instruction, label string) {
	if fg.c != nil && fg.c.Before != nil {
		steps := fg.c.Before[c.Key]
		if len(steps) > 0 {
			fg.beforeHit[c.Key] = true
		}
		if len(steps) == 0 {
			// allow the unqualified key for same-package callees
			steps = fg.c.Before[strings.TrimPrefix(c.Key, fg.c.Pkg+".")]
			if len(steps) > 0 {
				fg.beforeHit[strings.TrimPrefix(c.Key, fg.c.Pkg+".")] = true
			}
		}
		if len(steps) > 0 {
			benv := env.child()
			for n, v := range fg.params {
				if _, clash := benv.vars[n]; !clash {
					benv.vars[n] = v
				}
			}
			benv.old = fg.entrySt
			if in != nil && in.Block() != nil {
				benv.local = fg.localResolverAt(in.Block(), in.Block(), st)
			}
			for k, sc := range steps {
				t := benv.tr(sc.E)
				fg.oblig("assert", fmt.Sprintf("assert:before:%s#%s@%s", c.Key, clauseName(sc, k), label), sc.Tag, fg.guard(), t.T, sc.Src, fmt.Sprintf("%s:%d", sc.File, sc.Line))
			}
		}
	}
}

// applyContract is the modular call rule for a given contract and argument list.
func (fg *FG) applyContract(st *State, c *Contract, callee *ssa.Function, sig *types.Signature, args []Val, in ssa.Instruction, extra map[string]Val) []Val {
	names := fg.paramNames(c, callee, sig, false)
	if len(names) != len(args) {
		fg.fail("contract %s names %d parameters, call has %d", c.Key, len(names), len(args))
	}
	if c.Assumed {
		fg.usedAssumed[c.Key] = true
	}
	fg.g.noteCallee(fg, c)
	env := &Env{fg: fg, vars: map[string]Val{}, st: st}
	if p := fg.g.pkgByName(c.Pkg); p != nil {
		env.pkg = p
	}
	for i, n := range names {
		env.vars[n] = args[i]
	}
	for k, v := range extra {
		env.vars[k] = v
	}
	label := fg.instrLabel(in)
	fg.beforeCall(st, c, env, in, label)
	fg.typeFacts(c, env, in, label)
	for k, r := range c.Requires {
		t := env.tr(r.E)
		nm := fmt.Sprintf("pre:%s#%s@%s", c.Key, clauseName(r, k), label)
		fg.oblig("pre", nm, r.Tag, fg.guard(), t.T, r.Src, fg.posOf(instrPos(in)))
	}
	pre := st.clone()
	a := fg.heap(st, "$alloc", "Int")
	na := fg.havocHeap(st, "$alloc")
	fg.assume(fmt.Sprintf("(>= %s %s)", na, a))
	fg.applyModifies(st, c, env, in)
	fg.forgetLastSel(st, c)
	rnames := resultNames(c, sig)
	var results []Val
	for i := 0; i < sig.Results().Len(); i++ {
		rt := sig.Results().At(i).Type()
		rv := Val{T: fg.fresh("r."+sanitize(rnames[i]), fg.sorts.sortOf(rt)), Ty: rt}
		fg.assumeTyped(rv, st)
		results = append(results, rv)
		env.vars[rnames[i]] = rv
		if sig.Results().Len() == 1 {
			env.vars["result"] = rv
		}
	}
	env.st = st
	env.old = pre
	for _, q := range c.Ensures {
		t := env.tr(q.E)
		fg.assume(fmt.Sprintf("(=> %s %s)", fg.guard(), t.T))
	}
	return results
}

// evalModifies evaluates the modifies clause of a contract in env (pre-state).
func (fg *FG) evalModifies(c *Contract, env *Env) []modEntry {
	var out []modEntry
	for _, m := range c.Modifies {
		out = append(out, fg.evalModEntry(m.E, env, m.Src)...)
	}
	return out
}

func (fg *FG) evalModEntry(x *SExpr, env *Env, src string) []modEntry {
	// elems(s) | elems(s, lo, hi) | *p | x.f | x[i]
	if x.Kind == SCall && x.A.Kind == SIdent && x.A.Name == "elems" {
		s := env.tr(x.Args[0])
		if mt, isMap := types.Unalias(s.Ty).Underlying().(*types.Map); isMap {
			mv, _ := fg.mapFamilies(mt)
			return []modEntry{{loc: &Loc{Kind: LCell, Heap: mv, Ref: s.T}, src: src}}
		}
		if pt, isP := types.Unalias(s.Ty).Underlying().(*types.Pointer); isP {
			if arr, isA := types.Unalias(pt.Elem()).Underlying().(*types.Array); isA {
				// pointer to an array: all its elements
				fam, srt := fg.elemFamily(arr.Elem())
				fg.heapSort[fam] = srt
				return []modEntry{{loc: &Loc{Kind: LElem, Heap: fam, Ref: s.T, Ty: arr.Elem()}, elems: true, lo: "0", hi: fmt.Sprint(arr.Len()), src: src}}
			}
		}
		sl, ok := types.Unalias(s.Ty).Underlying().(*types.Slice)
		if !ok {
			fg.fail("modifies elems(%s): not a slice or map", x.Args[0])
		}
		fam, srt := fg.elemFamily(sl.Elem())
		fg.heapSort[fam] = srt
		lo := fmt.Sprintf("(s.off %s)", s.T)
		hi := fmt.Sprintf("(+ (s.off %s) (s.cap %s))", s.T, s.T)
		if len(x.Args) == 3 {
			lo = fmt.Sprintf("(+ (s.off %s) %s)", s.T, env.tr(x.Args[1]).T)
			hi = fmt.Sprintf("(+ (s.off %s) %s)", s.T, env.tr(x.Args[2]).T)
		}
		return []modEntry{{loc: &Loc{Kind: LElem, Heap: fam, Ref: fmt.Sprintf("(s.arr %s)", s.T), Ty: sl.Elem()}, elems: true, lo: lo, hi: hi, src: src}}
	}
	if x.Kind == SCall && x.A.Kind == SIdent && x.A.Name == "family" {
		// family(NAME): every cell of a heap family (e.g. CH_len: the buffers of all channels)
		fam := x.Args[0].String()
		if _, ok := fg.heapSort[fam]; !ok {
			switch fam {
			case "CH_len", "CH_cap":
				fg.heapSort[fam] = "(Array Int Int)"
			case "CH_closed":
				fg.heapSort[fam] = "(Array Int Bool)"
			default:
				// a ghost family that has not been used yet: materialise it from its declaration
				if strings.HasPrefix(fam, "G_any_") {
					if ty, ok := fg.g.ct.GhostFields["any."+strings.TrimPrefix(fam, "G_any_")]; ok {
						t, srt := env.resolveType(ty)
						if t != nil {
							srt = fg.sorts.sortOf(t)
						}
						fg.heapSort[fam] = "(Array Int " + srt + ")"
					}
				}
				if _, ok := fg.heapSort[fam]; !ok {
					fg.fail("modifies family(%s): unknown family", fam)
				}
			}
		}
		return []modEntry{{loc: &Loc{Kind: LCell, Heap: fam, Ref: "0"}, all: true, src: src}}
	}
	if x.Kind == SCall && x.A.Kind == SIdent && (x.A.Name == "allfields" || x.A.Name == "allelems") {
		// allfields(T): every field of every object of struct type T; allelems(T): every element of every []T
		t, _ := env.resolveType(x.Args[0].String())
		if t == nil {
			fg.fail("modifies %s: cannot resolve type", x)
		}
		var out []modEntry
		if x.A.Name == "allelems" {
			fam, srt := fg.elemFamily(t)
			fg.heapSort[fam] = srt
			return []modEntry{{loc: &Loc{Kind: LElem, Heap: fam, Ref: "0"}, all: true, src: src}}
		}
		st, ok := structOf(t)
		if !ok {
			fg.fail("modifies allfields(%s): not a struct type", x.Args[0])
		}
		for i := 0; i < st.NumFields(); i++ {
			fam, srt := fg.fieldFamily(t, st, i)
			fg.heapSort[fam] = srt
			out = append(out, modEntry{loc: &Loc{Kind: LField, Heap: fam, Ref: "0"}, all: true, src: src})
		}
		return out
	}
	if x.Kind == SCall && x.A.Kind == SIdent && x.A.Name == "fields" {
		// fields(p): every field of the struct object p
		p := env.tr(x.Args[0])
		l := fg.locOf(p)
		if l.Kind != LObj {
			fg.fail("modifies fields(%s): not a struct object", x.Args[0])
		}
		s, _ := structOf(l.Ty)
		var out []modEntry
		for i := 0; i < s.NumFields(); i++ {
			out = append(out, modEntry{loc: fg.fieldLoc(l, l.Ty, s, i), src: src})
		}
		return out
	}
	l := fg.specLoc(x, env)
	if l.Kind == LObj {
		s, _ := structOf(l.Ty)
		var out []modEntry
		for i := 0; i < s.NumFields(); i++ {
			out = append(out, modEntry{loc: fg.fieldLoc(l, l.Ty, s, i), src: src})
		}
		return out
	}
	return []modEntry{{loc: l, src: src}}
}

// specLoc evaluates a spec expression denoting a location.
func (fg *FG) specLoc(x *SExpr, env *Env) *Loc {
	switch x.Kind {
	case SUnary:
		if x.Op == "*" {
			p := env.tr(x.A)
			return fg.locOf(p)
		}
	case SSel:
		a := env.tr(x.A)
		if a.Ty == nil {
			if a.Sort == "Iface" {
				a = Val{T: fmt.Sprintf("(i.val %s)", a.T), Sort: "Int"}
			}
			if a.Sort == "Int" {
				if ty, ok := fg.g.ct.GhostFields["any."+x.Name]; ok {
					t, srt := env.resolveType(ty)
					if t != nil {
						srt = fg.sorts.sortOf(t)
					}
					fam := "G_any_" + sanitize(x.Name)
					fg.heapSort[fam] = "(Array Int " + srt + ")"
					return &Loc{Kind: LGhost, Heap: fam, Ref: a.T, Ty: t, GSort: srt}
				}
			}
			fg.fail("modifies: selection on spec sort")
		}
		if gf, ok := fg.ghostField(a.Ty, x.Name); ok {
			t, srt := env.resolveType(gf.ty)
			if t != nil {
				srt = fg.sorts.sortOf(t)
			}
			fg.heapSort[gf.family] = "(Array Int " + srt + ")"
			if t != nil {
				fg.heapTy[gf.family] = t
			}
			return &Loc{Kind: LGhost, Heap: gf.family, Ref: fg.refOf(a), Ty: t, GSort: srt}
		}
		obj, index, _ := types.LookupFieldOrMethod(a.Ty, true, env.pkg, x.Name)
		if obj == nil {
			obj, index, _ = lookupFieldAnyPkg(a.Ty, x.Name)
		}
		if obj == nil {
			fg.fail("modifies: no field %s in %v", x.Name, a.Ty)
		}
		cur := a
		var loc *Loc
		for k, fi := range index {
			pt, ok := types.Unalias(cur.Ty).Underlying().(*types.Pointer)
			if !ok {
				// a struct-valued base: the location is interior to the location of the base
				if s, isS := structOf(cur.Ty); isS {
					var base *Loc
					if k == 0 {
						base = fg.specLoc(x.A, env)
					} else {
						base = loc
					}
					loc = fg.fieldLoc(base, cur.Ty, s, fi)
					if k < len(index)-1 {
						cur = Val{T: fg.load(env.st, loc), Ty: s.Field(fi).Type()}
					}
					continue
				}
				fg.fail("modifies %s: base is not a pointer", x)
			}
			s, _ := structOf(pt.Elem())
			base := fg.locOf(cur)
			loc = fg.fieldLoc(base, pt.Elem(), s, fi)
			if k < len(index)-1 {
				cur = Val{T: fg.load(env.st, loc), Ty: s.Field(fi).Type()}
			}
		}
		return loc
	case SIndex:
		a := env.tr(x.A)
		i := env.tr(x.B)
		if sl, ok := types.Unalias(a.Ty).Underlying().(*types.Slice); ok {
			fam, srt := fg.elemFamily(sl.Elem())
			fg.heapSort[fam] = srt
			return &Loc{Kind: LElem, Heap: fam, Ref: fmt.Sprintf("(s.arr %s)", a.T), Idx: fmt.Sprintf("(+ (s.off %s) %s)", a.T, i.T), Ty: sl.Elem()}
		}
	}
	fg.fail("unsupported location expression in modifies: %s", x)
	return nil
}

// applyModifies havocs the locations a callee may modify.
func (fg *FG) applyModifies(st *State, c *Contract, env *Env, in ssa.Instruction) {
	ents := fg.evalModifies(c, env)
	for _, m := range ents {
		fg.frameCheckEntry(st, m, in)
	}
	for _, m := range ents {
		fg.havocEntry(st, m)
	}
}

func (fg *FG) havocEntry(st *State, m modEntry) {
	l := m.loc
	if m.all {
		fg.heap(st, l.Heap, "")
		fg.havocHeap(st, l.Heap)
		return
	}
	if strings.HasPrefix(l.Heap, "MV_") {
		// whole map contents: values, presence, cardinality
		for _, fam := range []string{l.Heap, mapPresence(l.Heap), "ML_" + l.Heap[3:]} {
			h := fg.heap(st, fam, "")
			_, inner := splitArraySort(fg.heapSort[fam])
			nv := fg.fresh("hm", inner)
			fg.setHeap(st, fam, fmt.Sprintf("(store %s %s %s)", h, l.Ref, nv))
			if fam[:3] == "ML_" {
				fg.assume(fmt.Sprintf("(>= %s 0)", nv))
			}
		}
		return
	}
	if m.elems {
		h := fg.heap(st, l.Heap, "")
		_, inner := splitArraySort(fg.heapSort[l.Heap])
		na := fg.fresh("arr", inner)
		old := fmt.Sprintf("(select %s %s)", h, l.Ref)
		fg.assume(fmt.Sprintf("(forall ((x Int)) (! (=> (not (and (<= %s x) (< x %s))) (= (select %s x) (select %s x))) :pattern ((select %s x))))", m.lo, m.hi, na, old, na))
		if f := fg.wfTerm(l.Ty, fmt.Sprintf("(select %s x)", na), 0, fg.heap(st, "$alloc", "Int")); f != "" {
			fg.assume(fmt.Sprintf("(forall ((x Int)) (! %s :pattern ((select %s x))))", f, na))
		}
		fg.setHeap(st, l.Heap, fmt.Sprintf("(store %s %s %s)", h, l.Ref, na))
		return
	}
	srt := ""
	if l.Ty != nil {
		srt = fg.sorts.sortOf(l.Ty)
	} else {
		srt = l.GSort
	}
	nv := fg.fresh("hv", srt)
	if l.Ty != nil {
		if f := fg.wfTerm(l.Ty, nv, 0, fg.heap(st, "$alloc", "Int")); f != "" {
			fg.assume(f)
		}
	}
	fg.store(st, l, nv)
}

// frameCheck: a store must hit a location listed in the function's modifies clause or a fresh object.
func (fg *FG) frameCheck(st *State, l *Loc, in ssa.Instruction) {
	fg.frameCheckEntry(st, modEntry{loc: l}, in)
}

func (fg *FG) frameCheckEntry(st *State, m modEntry, in ssa.Instruction) {
	if fg.c == nil || fg.isLemma {
		return
	}
	l := m.loc
	if l.Kind == LGlobal {
		return
	}
	if l.Ref == "" {
		return
	}
	if l.Kind == LGhost && (fg.g.ct.Volatile[strings.TrimPrefix(l.Heap, "G_any_")] || fg.g.ct.Balanced[strings.TrimPrefix(l.Heap, "G_any_")]) {
		return // volatile ghosts and balanced counters need no frame permission
	}
	var alts []string
	alts = append(alts, fmt.Sprintf("(>= %s %s)", l.Ref, fg.alloc0))
	if l.Kind != LGhost {
		// nothing can be written through a nil reference (the write would panic first)
		alts = append(alts, fmt.Sprintf("(= %s 0)", l.Ref))
	}
	if m.elems {
		// an empty region writes nothing
		alts = append(alts, fmt.Sprintf("(>= %s %s)", m.lo, m.hi))
	}
	for _, e := range fg.modset {
		if e.all && e.loc.Heap == l.Heap {
			alts = append(alts, "true")
			continue
		}
		if e.loc.Heap != l.Heap || e.loc.Kind != l.Kind {
			continue
		}
		switch {
		case e.elems && m.elems:
			alts = append(alts, fmt.Sprintf("(and (= %s %s) (<= %s %s) (<= %s %s))", l.Ref, e.loc.Ref, e.lo, m.lo, m.hi, e.hi))
		case e.elems && l.Idx != "":
			alts = append(alts, fmt.Sprintf("(and (= %s %s) (<= %s %s) (< %s %s))", l.Ref, e.loc.Ref, e.lo, l.Idx, l.Idx, e.hi))
		case e.elems:
			// whole array write
		case m.elems:
			// callee modifies a region, we only own a single element: not covered
		case e.loc.Idx != "" && l.Idx != "":
			alts = append(alts, fmt.Sprintf("(and (= %s %s) (= %s %s))", l.Ref, e.loc.Ref, l.Idx, e.loc.Idx))
		case e.loc.Idx == "" && l.Idx == "":
			alts = append(alts, fmt.Sprintf("(= %s %s)", l.Ref, e.loc.Ref))
		}
	}
	name := fmt.Sprintf("frame@%s", fg.instrLabel(in))
	src := "write to " + l.Heap
	if m.src != "" {
		src = "callee modifies " + m.src
	}
	fg.oblig("frame", name, "", fg.guard(), smtOr(alts), src, fg.posOf(instrPos(in)))
}

// ---------- builtins ----------

func (fg *FG) builtin(st *State, b *ssa.Builtin, cc *ssa.CallCommon, in ssa.Instruction) []Val {
	var args []Val
	for _, a := range cc.Args {
		args = append(args, fg.val(a))
	}
	switch b.Name() {
	case "len", "cap":
		a := args[0]
		switch u := types.Unalias(a.Ty).Underlying().(type) {
		case *types.Slice:
			return []Val{{T: fmt.Sprintf("(s.%s %s)", b.Name(), a.T), Ty: types.Typ[types.Int]}}
		case *types.Basic:
			return []Val{{T: fmt.Sprintf("(strlen %s)", a.T), Ty: types.Typ[types.Int]}}
		case *types.Array:
			return []Val{{T: fmt.Sprint(u.Len()), Ty: types.Typ[types.Int]}}
		case *types.Pointer:
			arr := u.Elem().Underlying().(*types.Array)
			return []Val{{T: fmt.Sprint(arr.Len()), Ty: types.Typ[types.Int]}}
		case *types.Map:
			_, ml := fg.mapFamilies(u)
			t := fmt.Sprintf("(select %s %s)", fg.heap(st, ml, ""), a.T)
			fg.assume(fmt.Sprintf("(>= %s 0)", t)) // the number of entries of a map is never negative
			return []Val{{T: t, Ty: types.Typ[types.Int]}}
		case *types.Chan:
			fam := "CH_" + b.Name()
			fg.heapSort[fam] = "(Array Int Int)"
			return []Val{{T: fmt.Sprintf("(select %s %s)", fg.heap(st, fam, "(Array Int Int)"), a.T), Ty: types.Typ[types.Int]}}
		}
		fg.fail("len/cap of %v", a.Ty)
	case "append":
		return []Val{fg.appendOp(st, args[0], args[1], in)}
	case "copy":
		return []Val{fg.copyOp(st, args[0], args[1], in)}
	case "min", "max":
		op := "<="
		if b.Name() == "max" {
			op = ">="
		}
		cur := args[0].T
		for _, a := range args[1:] {
			cur = fmt.Sprintf("(ite (%s %s %s) %s %s)", op, cur, a.T, cur, a.T)
		}
		return []Val{{T: cur, Ty: args[0].Ty}}
	case "delete":
		fg.mapDelete(st, args[0], args[1], in)
		return nil
	case "close":
		fg.closeChan(st, args[0], in)
		return nil
	case "print", "println":
		return nil
	case "ssa:wrapnilchk":
		fg.safe("nil", in, fmt.Sprintf("(not (= %s 0))", args[0].T))
		return []Val{args[0]}
	}
	fg.fail("unsupported builtin %s", b.Name())
	return nil
}

// appendOp models append(s, t...) exactly: in place when the capacity suffices (visible through
// every alias of the backing array), otherwise a fresh array.
func (fg *FG) appendOp(st *State, s, t Val, in ssa.Instruction) Val {
	sl := types.Unalias(s.Ty).Underlying().(*types.Slice)
	fam, srt := fg.elemFamily(sl.Elem())
	fg.heapSort[fam] = srt
	_, inner := splitArraySort(srt)
	h := fg.heap(st, fam, srt)
	var tlen string
	var srcAt func(i string) string
	if t.sortIn(fg.sorts) == "Str" {
		tlen = fmt.Sprintf("(strlen %s)", t.T)
		srcAt = func(i string) string { return fmt.Sprintf("(strat %s %s)", t.T, i) }
	} else {
		tlen = fmt.Sprintf("(s.len %s)", t.T)
		srcAt = func(i string) string {
			return fmt.Sprintf("(select (select %s (s.arr %s)) (+ (s.off %s) %s))", h, t.T, t.T, i)
		}
	}
	n := fg.define("app.n", "Int", tlen)
	newLen := fg.define("app.len", "Int", fmt.Sprintf("(+ (s.len %s) %s)", s.T, n))
	fits := fg.define("app.fits", "Bool", fmt.Sprintf("(<= %s (s.cap %s))", newLen, s.T))
	// in-place array
	base := fg.define("app.base", "Int", fmt.Sprintf("(+ (s.off %s) (s.len %s))", s.T, s.T))
	oldArr := fmt.Sprintf("(select %s (s.arr %s))", h, s.T)
	inpl := fg.fresh("app.inpl", inner)
	fg.assume(fmt.Sprintf("(forall ((x Int)) (! (= (select %s x) (ite (and (<= %s x) (< x (+ %s %s))) %s (select %s x))) :pattern ((select %s x)) :pattern ((select %s x))))",
		inpl, base, base, n, srcAt(fmt.Sprintf("(- x %s)", base)), oldArr, inpl, oldArr))
	// fresh array
	r := fg.allocRef(st)
	fg.assume(fmt.Sprintf("(> %s 0)", r))
	na := fg.fresh("app.new", inner)
	fg.assume(fmt.Sprintf("(forall ((x Int)) (! (=> (and (<= 0 x) (< x %s)) (= (select %s x) (ite (< x (s.len %s)) (select %s (+ (s.off %s) x)) %s))) :pattern ((select %s x))))",
		newLen, na, s.T, oldArr, s.T, srcAt(fmt.Sprintf("(- x (s.len %s))", s.T)), na))
	// the same copy stated from the old array's side, so that a known old element finds its new place
	fg.assume(fmt.Sprintf("(forall ((y Int)) (! (=> (and (<= (s.off %s) y) (< y (+ (s.off %s) (s.len %s)))) (= (select %s (- y (s.off %s))) (select %s y))) :pattern ((select %s y))))",
		s.T, s.T, s.T, na, s.T, oldArr, oldArr))
	ncap := fg.fresh("app.cap", "Int")
	fg.assume(fmt.Sprintf("(>= %s %s)", ncap, newLen))
	// frame: in-place writes hit the spare capacity of s
	if fg.c != nil && !fg.isLemma {
		m := modEntry{loc: &Loc{Kind: LElem, Heap: fam, Ref: fmt.Sprintf("(s.arr %s)", s.T), Ty: sl.Elem()}, elems: true, lo: base, hi: fmt.Sprintf("(+ %s %s)", base, n), src: "append in place"}
		// only when it fits and something is appended
		saved := fg.R[fg.curBlock]
		fg.R[fg.curBlock] = fmt.Sprintf("(and %s %s (> %s 0))", saved, fits, n)
		fg.frameCheckEntry(st, m, in)
		fg.R[fg.curBlock] = saved
	}
	fg.setHeap(st, fam, fmt.Sprintf("(ite %s (store %s (s.arr %s) %s) (store %s %s %s))", fits, h, s.T, inpl, h, r, na))
	res := fg.define("app.res", "Slice", fmt.Sprintf("(ite %s (mk-slice (s.arr %s) (s.off %s) %s (s.cap %s)) (mk-slice %s 0 %s %s))", fits, s.T, s.T, newLen, s.T, r, newLen, ncap))
	// ground consequences of the definition (they give the matcher the terms it needs): the result's
	// backing array is one of the two arrays above, and the first appended element sits at len(s)
	nh := fg.heap(st, fam, srt)
	fg.assume(fmt.Sprintf("(= (select %s (s.arr %s)) (ite %s %s %s))", nh, res, fits, inpl, na))
	fg.assume(fmt.Sprintf("(=> (>= %s 1) (= (select (select %s (s.arr %s)) (+ (s.off %s) (s.len %s))) %s))", n, nh, res, res, s.T, srcAt("0")))
	return Val{T: res, Ty: s.Ty}
}

func (fg *FG) copyOp(st *State, d, s Val, in ssa.Instruction) Val {
	sl := types.Unalias(d.Ty).Underlying().(*types.Slice)
	fam, srt := fg.elemFamily(sl.Elem())
	fg.heapSort[fam] = srt
	_, inner := splitArraySort(srt)
	h := fg.heap(st, fam, srt)
	var slen string
	var srcAt func(i string) string
	if s.sortIn(fg.sorts) == "Str" {
		slen = fmt.Sprintf("(strlen %s)", s.T)
		srcAt = func(i string) string { return fmt.Sprintf("(strat %s %s)", s.T, i) }
	} else {
		slen = fmt.Sprintf("(s.len %s)", s.T)
		srcAt = func(i string) string {
			return fmt.Sprintf("(select (select %s (s.arr %s)) (+ (s.off %s) %s))", h, s.T, s.T, i)
		}
	}
	n := fg.define("cp.n", "Int", fmt.Sprintf("(ite (<= (s.len %s) %s) (s.len %s) %s)", d.T, slen, d.T, slen))
	oldArr := fmt.Sprintf("(select %s (s.arr %s))", h, d.T)
	na := fg.fresh("cp.arr", inner)
	fg.assume(fmt.Sprintf("(forall ((x Int)) (! (= (select %s x) (ite (and (<= (s.off %s) x) (< x (+ (s.off %s) %s))) %s (select %s x))) :pattern ((select %s x))))",
		na, d.T, d.T, n, srcAt(fmt.Sprintf("(- x (s.off %s))", d.T)), oldArr, na))
	if fg.c != nil && !fg.isLemma {
		m := modEntry{loc: &Loc{Kind: LElem, Heap: fam, Ref: fmt.Sprintf("(s.arr %s)", d.T), Ty: sl.Elem()}, elems: true, lo: fmt.Sprintf("(s.off %s)", d.T), hi: fmt.Sprintf("(+ (s.off %s) %s)", d.T, n), src: "copy"}
		saved := fg.R[fg.curBlock]
		fg.R[fg.curBlock] = fmt.Sprintf("(and %s (> %s 0))", saved, n)
		fg.frameCheckEntry(st, m, in)
		fg.R[fg.curBlock] = saved
	}
	fg.setHeap(st, fam, fmt.Sprintf("(store %s (s.arr %s) %s)", h, d.T, na))
	return Val{T: n, Ty: types.Typ[types.Int]}
}

func (fg *FG) goStmt(st *State, x *ssa.Go) {
	// the spawned function runs under its own contract; only its precondition is checked here
	cc := &x.Call
	callee := cc.StaticCallee()
	if callee == nil {
		if fv := fg.val(cc.Value); fv.Clo != nil {
			callee = fv.Clo.fn
		}
	}
	if callee == nil {
		fg.g.noteAssumption("go statement with dynamic callee in " + fg.name + " is not followed")
		return
	}
	c := fg.g.contractFor(callee)
	if c == nil {
		fg.g.noteAssumption("goroutine " + fg.g.keyOf(callee) + " started by " + fg.name + " has no contract; it is not followed")
		return
	}
	defer func() {
		// a "spawn K" model records the start in ghost state of the spawning function
		if sc := fg.g.ct.C["spawn:"+fg.g.keyOf(callee)]; sc != nil {
			var sargs []Val
			for _, a := range cc.Args {
				sargs = append(sargs, fg.val(a))
			}
			fg.usedAssumed[sc.Key] = true
			// a spawned closure: its free variables (the captured cells) are visible by name
			extra := map[string]Val{}
			if fv := fg.val(cc.Value); fv.Clo != nil {
				for i, f := range callee.FreeVars {
					if i < len(fv.Clo.bindings) {
						extra[f.Name()] = fv.Clo.bindings[i]
					}
				}
			}
			fg.applyContract(st, sc, callee, cc.Signature(), sargs, x, extra)
		}
	}()
	var args []Val
	for _, a := range cc.Args {
		args = append(args, fg.val(a))
	}
	names := fg.paramNames(c, callee, cc.Signature(), false)
	env := &Env{fg: fg, vars: map[string]Val{}, st: st}
	if callee.Pkg != nil {
		env.pkg = callee.Pkg.Pkg
	}
	for i, n := range names {
		if i < len(args) {
			env.vars[n] = args[i]
		}
	}
	if fv := fg.val(cc.Value); fv.Clo != nil {
		for i, f := range callee.FreeVars {
			if i < len(fv.Clo.bindings) {
				env.vars[f.Name()] = fv.Clo.bindings[i]
			}
		}
	}
	for k, r := range c.Requires {
		t := env.tr(r.E)
		nm := fmt.Sprintf("pre:%s#%s@%s", c.Key, clauseName(r, k), fg.instrLabel(x))
		fg.oblig("pre", nm, r.Tag, fg.guard(), t.T, r.Src, fg.posOf(instrPos(x)))
	}
}

// constFuncVar: the function a package-level variable of function type always holds - when its only
// assignment in the loaded program is the one of its declaration (in the package initialiser) and
// that assigns a named function. (An assignment from a package that is not loaded would be missed:
// listed with the assumptions of the trusted base.)
func (g *Gen) constFuncVar(gl *ssa.Global) *ssa.Function {
	if g.funcVars == nil {
		g.funcVars = map[*ssa.Global]*ssa.Function{}
		bad := map[*ssa.Global]bool{}
		for fn := range ssautil.AllFunctions(g.prog) {
			for _, b := range fn.Blocks {
				for _, in := range b.Instrs {
					// any use of the variable's address other than loading from it or this one store disqualifies it
					if st, ok := in.(*ssa.Store); ok {
						if x, ok := st.Addr.(*ssa.Global); ok {
							f, isFn := st.Val.(*ssa.Function)
							if !isFn || fn.Name() != "init" || fn.Pkg == nil || fn.Pkg != x.Pkg || g.funcVars[x] != nil {
								bad[x] = true
							} else {
								g.funcVars[x] = f
							}
							continue
						}
					}
					for _, op := range in.Operands(nil) {
						if x, ok := (*op).(*ssa.Global); ok {
							if u, isLoad := in.(*ssa.UnOp); !(isLoad && u.Op == token.MUL) {
								bad[x] = true
							}
						}
					}
				}
			}
		}
		for x := range bad {
			delete(g.funcVars, x)
		}
	}
	return g.funcVars[gl]
}

// initCallFact: the package-level variable `global` of package pkgName is assigned exactly once in the
// loaded program - by the package initialiser - and the assigned value is the result of a call of the
// function with key fkey whose arguments are the given integer constants. "" when it is so.
func (g *Gen) initCallFact(pkgName, global, fkey string, consts []string) string {
	var sp *ssa.Package
	for _, p := range g.ssaPkgs {
		if p != nil && p.Pkg.Name() == pkgName {
			sp = p
		}
	}
	if sp == nil {
		return "package " + pkgName + " is not loaded"
	}
	gl, _ := sp.Members[global].(*ssa.Global)
	if gl == nil {
		return "no such package-level variable"
	}
	var stores []*ssa.Store
	for fn := range ssautil.AllFunctions(g.prog) {
		for _, b := range fn.Blocks {
			for _, in := range b.Instrs {
				if st, ok := in.(*ssa.Store); ok && st.Addr == gl {
					if fn.Pkg != sp || fn.Name() != "init" {
						return "assigned outside the package initialiser (in " + fn.String() + ")"
					}
					stores = append(stores, st)
				}
			}
		}
	}
	if len(stores) != 1 {
		return fmt.Sprintf("%d assignments in the package initialiser", len(stores))
	}
	call, ok := stores[0].Val.(*ssa.Call)
	if !ok || call.Call.StaticCallee() == nil {
		return "not initialised by a static call"
	}
	if k := g.keyOf(call.Call.StaticCallee()); k != fkey && k != pkgName+"."+fkey {
		return "initialised by a call of " + k
	}
	if len(call.Call.Args) != len(consts) {
		return fmt.Sprintf("the call has %d arguments", len(call.Call.Args))
	}
	for i, a := range call.Call.Args {
		cv, ok := a.(*ssa.Const)
		if !ok || cv.Value == nil || cv.Value.ExactString() != consts[i] {
			return fmt.Sprintf("argument %d is %s", i, a.String())
		}
	}
	return ""
}

// failedFact: the goal of a static fact that does not hold - an unconstrained Boolean, so that the
// obligation fails (it is not provable) without making everything after it vacuously true when the
// checked obligation is assumed
func (fg *FG) failedFact() string {
	n := fg.fresh("fact.fails", "Bool")
	return n
}
