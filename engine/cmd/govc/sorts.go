package main

import (
	"fmt"
	"go/types"
	"sort"
	"strings"
)

// Val is a translated value: an SMT term with its Go type, or a statically tracked address.
type Val struct {
	T   string     // SMT term ("" when the value is an interior address that cannot be materialised)
	Ty  types.Type // Go type (may be nil for spec-only values; then Sort is set)
	Loc *Loc       // non-nil: this value is a pointer represented as a static location
	Sort string    // SMT sort when Ty == nil
	Tuple []Val    // for multi-result calls
	Clo *closureInfo
	DynTy types.Type // static type of the value an interface value was made from (MakeInterface)
}

type LocKind int

const (
	LObj    LocKind = iota // whole struct object addressed by Ref (fields live in F_* heaps)
	LCell                  // cell heap C_T indexed by Ref
	LField                 // field heap F_S_f indexed by Ref
	LElem                  // array heap E_T indexed by (Ref, absolute index)
	LGlobal                // immutable global constant
	LGhost                 // ghost field heap G_S_f indexed by Ref
)

type PathStep struct {
	Field  int        // struct field index (when Struct != nil)
	Struct types.Type // struct type being selected from
	Index  string     // array index term (when Struct == nil)
}

type Loc struct {
	Kind LocKind
	Heap string
	Ref  string
	Idx  string
	Path []PathStep
	Ty   types.Type // pointee type
	GSort string
}

func (l *Loc) withPath(ps PathStep, ty types.Type) *Loc {
	n := *l
	n.Path = append(append([]PathStep{}, l.Path...), ps)
	n.Ty = ty
	return &n
}

var smtReserved = map[string]bool{"par": true, "let": true, "forall": true, "exists": true, "assert": true, "true": true, "false": true, "not": true, "and": true, "or": true, "ite": true, "select": true, "store": true, "Int": true, "Bool": true, "Array": true, "div": true, "mod": true, "abs": true, "as": true, "match": true, "len": true, "is": true}

func sanitize(s string) string {
	var sb strings.Builder
	for _, r := range s {
		switch {
		case r >= 'a' && r <= 'z', r >= 'A' && r <= 'Z', r >= '0' && r <= '9', r == '_':
			sb.WriteRune(r)
		case r == '.' || r == '/':
			sb.WriteRune('_')
		case r == '*':
			sb.WriteString("P")
		case r == '[':
			sb.WriteString("L")
		case r == ']':
			sb.WriteString("R")
		case r == '$':
			sb.WriteString("$")
		default:
			sb.WriteRune('_')
		}
	}
	return sb.String()
}

func shortTypeName(t types.Type) string {
	s := types.TypeString(t, func(p *types.Package) string { return p.Name() })
	// byte and rune are aliases: one heap family per underlying type
	s = strings.ReplaceAll(s, "byte", "uint8")
	s = strings.ReplaceAll(s, "rune", "int32")
	return sanitize(s)
}

// Sorts registry: per function generator.
type Sorts struct {
	goTypeOf map[string]types.Type // struct sort name -> Go type
	decls    []string
	declared map[string]bool
	structs  map[string]*types.Struct
	tagIDs   map[string]int
	tagNames []string
	boxes    map[string]bool
	tparams  map[string]bool
}

func newSorts() *Sorts {
	return &Sorts{declared: map[string]bool{}, structs: map[string]*types.Struct{}, tagIDs: map[string]int{}, boxes: map[string]bool{}, tparams: map[string]bool{}}
}

const prelude = `(set-option :smt.mbqi false)
(set-option :auto_config false)
(declare-datatypes ((Slice 0)) (((mk-slice (s.arr Int) (s.off Int) (s.len Int) (s.cap Int)))))
(declare-datatypes ((Iface 0)) (((mk-iface (i.tag Int) (i.val Int)))))
(declare-sort Str 0)
(declare-fun strlen (Str) Int)
(declare-fun strat (Str Int) Int)
(declare-fun strcat (Str Str) Str)
(declare-const str.empty Str)
(assert (= (strlen str.empty) 0))
(assert (forall ((s Str)) (! (>= (strlen s) 0) :pattern ((strlen s)))))
(assert (forall ((s Str)) (! (=> (= (strlen s) 0) (= s str.empty)) :pattern ((strlen s)))))
(assert (forall ((s Str) (i Int)) (! (and (<= 0 (strat s i)) (< (strat s i) 256)) :pattern ((strat s i)))))
(assert (forall ((a Str) (b Str)) (! (= (strlen (strcat a b)) (+ (strlen a) (strlen b))) :pattern ((strcat a b)))))
(assert (forall ((a Str) (b Str) (i Int)) (! (=> (and (<= 0 i) (< i (+ (strlen a) (strlen b)))) (= (strat (strcat a b) i) (ite (< i (strlen a)) (strat a i) (strat b (- i (strlen a)))))) :pattern ((strat (strcat a b) i)))))
(declare-fun implements (Int Int) Bool)
(declare-sort Bytes 0)
(declare-fun blen (Bytes) Int)
(declare-fun bat (Bytes Int) Int)
(declare-fun bytes.of ((Array Int Int) Int Int) Bytes)
(declare-fun bytes.diff (Bytes Bytes) Int)
(declare-fun bytes.eq (Bytes Bytes) Bool)
(declare-const bytes.empty Bytes)
(assert (= (blen bytes.empty) 0))
(assert (forall ((b Bytes)) (! (>= (blen b) 0) :pattern ((blen b)))))
(assert (forall ((b Bytes) (i Int)) (! (and (<= 0 (bat b i)) (< (bat b i) 256)) :pattern ((bat b i)))))
(assert (forall ((a (Array Int Int)) (o Int) (n Int)) (! (=> (>= n 0) (= (blen (bytes.of a o n)) n)) :pattern ((bytes.of a o n)))))
(assert (forall ((a (Array Int Int)) (o Int) (n Int) (i Int)) (! (=> (and (<= 0 i) (< i n) (<= 0 (select a (+ o i))) (< (select a (+ o i)) 256)) (= (bat (bytes.of a o n) i) (select a (+ o i)))) :pattern ((bat (bytes.of a o n) i)))))
(assert (forall ((x Bytes) (y Bytes)) (! (= (bytes.eq x y) (= x y)) :pattern ((bytes.eq x y)))))
(assert (forall ((x Bytes) (y Bytes)) (! (=> (and (= (blen x) (blen y)) (=> (and (<= 0 (bytes.diff x y)) (< (bytes.diff x y) (blen x))) (= (bat x (bytes.diff x y)) (bat y (bytes.diff x y))))) (= x y)) :pattern ((bytes.eq x y)))))
`

const ifaceNil = "(mk-iface 0 0)"
const sliceNil = "(mk-slice 0 0 0 0)"

func (s *Sorts) decl(key, text string) {
	if s.declared[key] {
		return
	}
	s.declared[key] = true
	s.decls = append(s.decls, text)
}

func isUnsigned(t types.Type) (bits int, ok bool) {
	b, isB := t.Underlying().(*types.Basic)
	if !isB {
		return 0, false
	}
	switch b.Kind() {
	case types.Uint8:
		return 8, true
	case types.Uint16:
		return 16, true
	case types.Uint32:
		return 32, true
	case types.Uint64, types.Uint, types.Uintptr:
		return 64, true
	}
	return 0, false
}

func isSignedNarrow(t types.Type) (bits int, ok bool) {
	b, isB := t.Underlying().(*types.Basic)
	if !isB {
		return 0, false
	}
	switch b.Kind() {
	case types.Int8:
		return 8, true
	case types.Int16:
		return 16, true
	case types.Int32:
		return 32, true
	}
	return 0, false
}

func isInteger(t types.Type) bool {
	b, ok := t.Underlying().(*types.Basic)
	return ok && b.Info()&types.IsInteger != 0
}

func pow2(n int) string {
	switch n {
	case 8:
		return "256"
	case 16:
		return "65536"
	case 32:
		return "4294967296"
	case 64:
		return "18446744073709551616"
	case 7:
		return "128"
	case 15:
		return "32768"
	case 31:
		return "2147483648"
	case 63:
		return "9223372036854775808"
	}
	panic("pow2")
}

func (s *Sorts) structSortName(t types.Type) string {
	if n, ok := t.(*types.Named); ok {
		return "S_" + shortTypeName(n)
	}
	if a, ok := t.(*types.Alias); ok {
		return s.structSortName(types.Unalias(a))
	}
	return "S_anon_" + shortTypeName(t)
}

// sortOf maps a Go type to an SMT sort, declaring datatypes on demand.
func (s *Sorts) sortOf(t types.Type) string {
	t = types.Unalias(t)
	switch u := t.(type) {
	case *types.Named:
		if st, ok := u.Underlying().(*types.Struct); ok {
			return s.declStruct(t, st)
		}
		return s.sortOf(u.Underlying())
	case *types.Basic:
		switch {
		case u.Info()&types.IsBoolean != 0:
			return "Bool"
		case u.Info()&types.IsInteger != 0:
			return "Int"
		case u.Info()&types.IsString != 0:
			return "Str"
		case u.Info()&types.IsFloat != 0:
			return "Real"
		case u.Kind() == types.UnsafePointer:
			return "Int"
		case u.Kind() == types.UntypedNil:
			return "Int"
		}
		return "Int"
	case *types.Pointer, *types.Map, *types.Chan, *types.Signature:
		return "Int"
	case *types.Slice:
		return "Slice"
	case *types.Array:
		return "(Array Int " + s.sortOf(u.Elem()) + ")"
	case *types.Struct:
		return s.declStruct(t, u)
	case *types.Interface:
		return "Iface"
	case *types.TypeParam:
		n := "TP_" + sanitize(u.Obj().Name())
		s.decl("sort:"+n, "(declare-sort "+n+" 0)")
		s.tparams[n] = true
		return n
	case *types.Tuple:
		return "Int"
	}
	panic(fmt.Sprintf("sortOf: unsupported type %v (%T)", t, t))
}

func (s *Sorts) declStruct(t types.Type, st *types.Struct) string {
	name := s.structSortName(t)
	if s.goTypeOf == nil {
		s.goTypeOf = map[string]types.Type{}
	}
	if _, ok := s.goTypeOf[name]; !ok {
		s.goTypeOf[name] = t
	}
	if s.declared["struct:"+name] {
		return name
	}
	s.declared["struct:"+name] = true // set early: recursive by-value impossible in Go
	s.structs[name] = st
	// compute field sorts (may declare nested structs first)
	var parts []string
	for i := 0; i < st.NumFields(); i++ {
		parts = append(parts, fmt.Sprintf("(%s %s)", s.fieldAcc(name, st, i), s.sortOf(st.Field(i).Type())))
	}
	if st.NumFields() == 0 {
		s.decls = append(s.decls, fmt.Sprintf("(declare-datatypes ((%s 0)) (((mk-%s))))", name, name))
	} else {
		s.decls = append(s.decls, fmt.Sprintf("(declare-datatypes ((%s 0)) (((mk-%s %s))))", name, name, strings.Join(parts, " ")))
	}
	return name
}

func (s *Sorts) fieldAcc(sortName string, st *types.Struct, i int) string {
	n := st.Field(i).Name()
	if n == "_" {
		n = fmt.Sprintf("_%d", i)
	}
	return sortName + "." + sanitize(n)
}

// zero returns the zero value term of a type.
func (s *Sorts) zero(t types.Type) string {
	t = types.Unalias(t)
	if _, ok := t.(*types.TypeParam); ok {
		n := s.sortOf(t)
		z := "zero." + n
		s.decl("zero:"+n, fmt.Sprintf("(declare-const %s %s)", z, n))
		return z
	}
	switch u := t.Underlying().(type) {
	case *types.Basic:
		switch {
		case u.Info()&types.IsBoolean != 0:
			return "false"
		case u.Info()&types.IsInteger != 0:
			return "0"
		case u.Info()&types.IsString != 0:
			return "str.empty"
		case u.Info()&types.IsFloat != 0:
			return "0.0"
		}
		return "0"
	case *types.Pointer, *types.Map, *types.Chan, *types.Signature:
		return "0"
	case *types.Slice:
		return sliceNil
	case *types.Array:
		return fmt.Sprintf("((as const %s) %s)", s.sortOf(t), s.zero(u.Elem()))
	case *types.Struct:
		name := s.sortOf(t)
		if u.NumFields() == 0 {
			return "mk-" + name
		}
		var parts []string
		for i := 0; i < u.NumFields(); i++ {
			parts = append(parts, s.zero(u.Field(i).Type()))
		}
		return fmt.Sprintf("(mk-%s %s)", name, strings.Join(parts, " "))
	case *types.Interface:
		return ifaceNil
	case *types.TypeParam:
		n := s.sortOf(t)
		z := "zero." + n
		s.decl("zero:"+n, fmt.Sprintf("(declare-const %s %s)", z, n))
		return z
	}
	if _, ok := t.(*types.TypeParam); ok {
		n := s.sortOf(t)
		z := "zero." + n
		s.decl("zero:"+n, fmt.Sprintf("(declare-const %s %s)", z, n))
		return z
	}
	panic(fmt.Sprintf("zero: unsupported type %v", t))
}

// typeTag returns the integer tag identifying a dynamic type inside interface values.
func (s *Sorts) typeTag(t types.Type) string {
	k := types.TypeString(types.Unalias(t), nil)
	id, ok := s.tagIDs[k]
	if !ok {
		id = len(s.tagIDs) + 1
		s.tagIDs[k] = id
		s.tagNames = append(s.tagNames, k)
	}
	return fmt.Sprint(id)
}

// box converts a value of sort srt to the Int payload of an interface value.
func (s *Sorts) box(srt, term string) string {
	if srt == "Int" {
		return term
	}
	n := sanitize(srt)
	if !s.boxes[n] {
		s.boxes[n] = true
		s.decls = append(s.decls, fmt.Sprintf("(declare-fun box.%s (%s) Int)", n, srt))
		s.decls = append(s.decls, fmt.Sprintf("(declare-fun unbox.%s (Int) %s)", n, srt))
		s.decls = append(s.decls, fmt.Sprintf("(assert (forall ((x %s)) (! (= (unbox.%s (box.%s x)) x) :pattern ((box.%s x)))))", srt, n, n, n))
	}
	return fmt.Sprintf("(box.%s %s)", n, term)
}

func (s *Sorts) unbox(srt, term string) string {
	if srt == "Int" {
		return term
	}
	s.box(srt, "0") // ensure declared
	return fmt.Sprintf("(unbox.%s %s)", sanitize(srt), term)
}

// rangeFact returns an SMT formula restricting term to the value range of type t ("" if none).
func (s *Sorts) rangeFact(t types.Type, term string) string {
	t = types.Unalias(t)
	if bits, ok := isUnsigned(t); ok {
		return fmt.Sprintf("(and (<= 0 %s) (< %s %s))", term, term, pow2(bits))
	}
	if bits, ok := isSignedNarrow(t); ok {
		return fmt.Sprintf("(and (<= (- %s) %s) (< %s %s))", pow2(bits-1), term, term, pow2(bits-1))
	}
	switch t.Underlying().(type) {
	case *types.Slice:
		return fmt.Sprintf("(and (<= 0 (s.arr %s)) (<= 0 (s.off %s)) (<= 0 (s.len %s)) (<= (s.len %s) (s.cap %s)) (=> (= (s.arr %s) 0) (= (s.cap %s) 0)))", term, term, term, term, term, term, term)
	case *types.Pointer, *types.Map, *types.Chan:
		return fmt.Sprintf("(<= 0 %s)", term)
	}
	return ""
}

func sortedKeys[V any](m map[string]V) []string {
	var ks []string
	for k := range m {
		ks = append(ks, k)
	}
	sort.Strings(ks)
	return ks
}
