package main

import (
	"bytes"
	"context"
	"encoding/json"
	"fmt"
	"os"
	"os/exec"
	"path/filepath"
	"regexp"
	"strings"
	"time"
)

// Replay: a failed obligation is turned into a concrete scenario (values of the function's
// parameters and of the symbolic results of assumed contracts, taken from the solver's model) and
// run against the real code by a driver test injected with `go test -overlay` (nothing is written
// to /repo). Drivers live in /verif/replay/drivers/<name>.go.tmpl.

type replayFile struct {
	Property   string            `json:"property"`
	Obligation string            `json:"obligation"`
	Function   string            `json:"function"`
	Kind       string            `json:"kind"`
	Clause     string            `json:"clause"`
	At         string            `json:"at"`
	Result     string            `json:"solver_result"`
	Solver     string            `json:"solver"`
	SolverOut  string            `json:"solver_output"`
	SMTFile    string            `json:"smt_file"`
	Model      map[string]string `json:"model,omitempty"`
	ModelNote  string            `json:"model_note,omitempty"`
	Driver     string            `json:"driver,omitempty"`
	DriverPkg  string            `json:"driver_pkg,omitempty"`
	TestOutput string            `json:"test_output,omitempty"`
	Outcome    string            `json:"outcome"` // confirmed | not-reproduced | no-driver | no-model
}

var defineFunRe = regexp.MustCompile(`(?s)\(define-fun\s+(\S+)\s+\(\)\s+(\S+|\([^()]*(?:\([^()]*\)[^()]*)*\))\s+(.*?)\)\s*(?:\(define-fun|\(declare-fun|;;|\)\s*$)`)

// parseModel extracts the constant definitions of a z3 model.
func parseModel(txt string) map[string]string {
	m := map[string]string{}
	// simple line-oriented scan: "(define-fun NAME () SORT" followed by value lines until balanced
	lines := strings.Split(txt, "\n")
	for i := 0; i < len(lines); i++ {
		l := strings.TrimSpace(lines[i])
		if !strings.HasPrefix(l, "(define-fun ") {
			continue
		}
		rest := strings.TrimPrefix(l, "(define-fun ")
		sp := strings.Index(rest, " ")
		if sp < 0 {
			continue
		}
		name := rest[:sp]
		rest = strings.TrimSpace(rest[sp:])
		if !strings.HasPrefix(rest, "()") {
			continue
		}
		// collect until parentheses balance
		depth := strings.Count(l, "(") - strings.Count(l, ")")
		body := rest[2:]
		for depth > 0 && i+1 < len(lines) {
			i++
			body += " " + strings.TrimSpace(lines[i])
			depth += strings.Count(lines[i], "(") - strings.Count(lines[i], ")")
		}
		body = strings.TrimSpace(body)
		body = strings.TrimSuffix(body, ")")
		// drop the sort (first token or parenthesised group)
		body = strings.TrimSpace(body)
		if strings.HasPrefix(body, "(") {
			d := 0
			for k := 0; k < len(body); k++ {
				if body[k] == '(' {
					d++
				}
				if body[k] == ')' {
					d--
					if d == 0 {
						body = strings.TrimSpace(body[k+1:])
						break
					}
				}
			}
		} else if sp := strings.Index(body, " "); sp >= 0 {
			body = strings.TrimSpace(body[sp:])
		}
		if len(body) < 400 {
			m[name] = body
		}
	}
	return m
}

func writeReplay(g *Gen, cfg *PropCfg, prop string, o *Oblig, path string) bool {
	rf := replayFile{Property: prop, Obligation: stableName(o), Function: o.Fn, Kind: o.Kind, Clause: o.Src, At: o.Pos,
		Result: o.Result, Solver: o.Solver, SolverOut: truncate(o.RawOut, 4000), SMTFile: o.File, Outcome: "no-model"}
	mtxt := getModel(o, 10)
	if strings.HasPrefix(strings.TrimSpace(mtxt), "sat") {
		rf.Model = parseModel(mtxt)
		rf.Outcome = "no-driver"
		rf.ModelNote = "model of the negated obligation (MBQI on); loop bodies are cut at their invariant, so the values describe one arbitrary iteration"
	} else {
		rf.ModelNote = "solver produced no model: " + truncate(strings.TrimSpace(mtxt), 300)
	}
	// choose a driver
	driver := ""
	for pat, d := range cfg.Replay {
		if ok, _ := regexp.MatchString(pat, rf.Obligation); ok {
			driver = d
		}
	}
	confirmed := false
	if driver != "" {
		rf.Driver = driver
		out, pkgDir, reproduced, err := runDriver(driver, rf)
		rf.DriverPkg = pkgDir
		rf.TestOutput = truncate(out, 6000)
		switch {
		case err != nil:
			rf.Outcome = "driver-error: " + err.Error()
		case reproduced:
			rf.Outcome = "confirmed"
			confirmed = true
		default:
			rf.Outcome = "not-reproduced"
		}
	}
	b, _ := json.MarshalIndent(rf, "", " ")
	os.WriteFile(path, b, 0o644)
	return confirmed
}

func truncate(s string, n int) string {
	if len(s) > n {
		return s[:n] + "...[truncated]"
	}
	return s
}

// runDriver instantiates the driver template with the scenario and runs it against /repo.
func runDriver(driver string, rf replayFile) (string, string, bool, error) {
	tmplPath := filepath.Join(verifDir, "replay", "drivers", driver+".go.tmpl")
	tb, err := os.ReadFile(tmplPath)
	if err != nil {
		return "", "", false, err
	}
	tmpl := string(tb)
	// first line: "// pkgdir: <dir relative to /repo>"
	first := strings.SplitN(tmpl, "\n", 2)[0]
	if !strings.HasPrefix(first, "// pkgdir:") {
		return "", "", false, fmt.Errorf("driver %s lacks the pkgdir header", driver)
	}
	pkgDir := strings.TrimSpace(strings.TrimPrefix(first, "// pkgdir:"))
	sc, _ := json.Marshal(rf)
	src := strings.Replace(tmpl, "{{SCENARIO}}", strings.ReplaceAll(string(sc), "`", "'"), 1)
	work := filepath.Join(outRoot, "replaywork")
	os.MkdirAll(work, 0o755)
	testFile := filepath.Join(work, "zz_verif_replay_"+sanitize(driver)+"_test.go")
	if err := os.WriteFile(testFile, []byte(src), 0o644); err != nil {
		return "", pkgDir, false, err
	}
	target := filepath.Join(repoDir, pkgDir, "zz_verif_replay_test.go")
	ov := map[string]interface{}{"Replace": map[string]string{target: testFile}}
	ob, _ := json.Marshal(ov)
	ovFile := filepath.Join(work, "overlay_"+sanitize(driver)+".json")
	os.WriteFile(ovFile, ob, 0o644)
	for _, f := range []string{"go.mod", "go.sum"} {
		b, err := os.ReadFile(filepath.Join(repoDir, f))
		if err == nil {
			os.WriteFile(filepath.Join(work, f), b, 0o644)
		}
	}
	ctx, cancel := context.WithTimeout(context.Background(), 300*time.Second)
	defer cancel()
	cmd := exec.CommandContext(ctx, "go", "test", "-modfile="+filepath.Join(work, "go.mod"), "-overlay", ovFile, "-vet=off", "-count=1", "-timeout", "120s", "-run", "^TestVerifReplay$", "./"+pkgDir)
	cmd.Dir = repoDir
	cmd.Env = append(os.Environ(), "GOFLAGS=-mod=mod", "GOPROXY=off", "GOSUMDB=off", "GOTOOLCHAIN=local")
	var out bytes.Buffer
	cmd.Stdout = &out
	cmd.Stderr = &out
	cmd.Run()
	txt := out.String()
	return txt, pkgDir, strings.Contains(txt, "REPRODUCED"), nil
}

func cmdReplay(args []string) {
	if len(args) < 1 {
		fmt.Println("usage: govc replay <replay file>")
		os.Exit(2)
	}
	b, err := os.ReadFile(args[0])
	if err != nil {
		fmt.Println(err)
		os.Exit(2)
	}
	var rf replayFile
	if err := json.Unmarshal(b, &rf); err != nil {
		fmt.Println(err)
		os.Exit(2)
	}
	fmt.Printf("obligation %s\n  clause: %s\n  at: %s\n  solver: %s -> %s\n", rf.Obligation, rf.Clause, rf.At, rf.Solver, rf.Result)
	if rf.Driver == "" {
		fmt.Println("no replay driver for this obligation; the file carries the solver output and model")
		fmt.Println(rf.SolverOut)
		os.Exit(1)
	}
	out, _, reproduced, err := runDriver(rf.Driver, rf)
	fmt.Println(out)
	if err != nil {
		fmt.Println("driver error:", err)
		os.Exit(2)
	}
	if reproduced {
		fmt.Println("REPLAY: violation reproduced on the real code")
		os.Exit(1)
	}
	fmt.Println("REPLAY: not reproduced")
	os.Exit(0)
}
