package main

import (
	"go/token"
	"fmt"
	"go/types"
	"strings"

	"golang.org/x/tools/go/ssa"
)

// run generates all obligations of the function under its contract.
func (fg *FG) run() (err error) {
	defer func() {
		if r := recover(); r != nil {
			if ge, ok := r.(genErr); ok {
				at := ""
				if fg.curInstr != nil {
					at = " at " + fg.posOf(instrPos(fg.curInstr)) + " [" + instrText(fg.curInstr) + "]"
				}
				err = fmt.Errorf("%s: %s%s", fg.name, ge.msg, at)
				return
			}
			// an internal error of the generator is a tool error for this function (the check reports
			// UNDECIDED), not a crash of the whole run
			err = fmt.Errorf("%s: internal error of the generator: %v", fg.name, r)
			return
		}
	}()
	fn := fg.fn
	c := fg.c
	if fn.Blocks == nil {
		fg.fail("function has no body")
	}
	fg.analyzeLoops()
	st := &State{heaps: map[string]string{}}
	fg.heapSort["$alloc"] = "Int"
	fg.alloc0 = fg.heap(st, "$alloc", "Int")
	fg.assume(fmt.Sprintf("(> %s 0)", fg.alloc0))
	fg.entrySt = st.clone()
	fg.curBlock = 0
	fg.R[0] = "true"

	var pkg *types.Package
	if p := fg.g.pkgOfFn(fn); p != nil {
		pkg = p
	}
	// parameters and free variables
	for i, p := range fn.Params {
		pname := p.Name()
		if pname == "_" || pname == "" {
			// blank parameters: the name the contract's params clause gives them, else a positional one
			pname = fmt.Sprintf("_%d", i)
			if i < len(c.Params) && c.Params[i] != "_" {
				pname = c.Params[i]
			}
		}
		n := "p." + sanitize(pname)
		fg.declare(n, fg.sorts.sortOf(p.Type()))
		v := Val{T: n, Ty: p.Type()}
		fg.vals[p] = v
		fg.params[pname] = v
		if i < len(c.Params) && len(c.Params) == len(fn.Params) && c.Params[i] != "_" && c.Params[i] != pname {
			// the contract's own (positional) name for the parameter is an alias of the source name
			if _, clash := fg.params[c.Params[i]]; !clash {
				fg.params[c.Params[i]] = v
			}
		}
		fg.assumeTyped(v, st)
	}
	for _, f := range fn.FreeVars {
		n := "fv." + sanitize(f.Name())
		fg.declare(n, fg.sorts.sortOf(f.Type()))
		v := Val{T: n, Ty: f.Type()}
		fg.vals[f] = v
		fg.params[f.Name()] = v
		fg.assumeTyped(v, st)
		if _, isPtr := f.Type().Underlying().(*types.Pointer); isPtr {
			// captured variables live in cells allocated by the enclosing function: never nil
			fg.assume(fmt.Sprintf("(> %s 0)", n))
		}
	}
	fg.results = resultNames(c, fn.Signature)

	env := fg.envAt(st, pkg, nil)
	// function-typed parameters declared pure are opaque pure functions: nothing to assume.
	for _, r := range c.Requires {
		fg.assume(env.tr(r.E).T)
	}
	for _, u := range c.Uses {
		fg.assume(env.tr(u.E).T)
	}
	fg.modset = fg.evalModifies(c, env)
	fg.cover("cover:requires", "true")
	if !c.Assumed && len(c.TypeFacts) > 0 {
		// static type facts the function's own contract states about the program (e.g. that its receiver
		// type still implements the interface through which a framework finds the method)
		fg.curBlock = 0
		fg.typeFacts(c, env, nil, "entry")
	}

	order := fg.order()
	for _, b := range order {
		fg.block(b, pkg)
	}
	for key, n := range fg.stepApplied {
		if n == 0 {
			fg.fail("loop step clause %s applies at no back-edge (unknown identifier?)", key)
		}
	}
	for key, steps := range c.Before {
		// "before K assert false" states that K is never called: attaching to nothing is its point
		never := true
		for _, sc := range steps {
			if strings.TrimSpace(sc.Src) != "false" {
				never = false
			}
		}
		if !fg.beforeHit[key] && !never {
			fg.softErrs = append(fg.softErrs, fmt.Sprintf("'before %s assert' attaches to nothing: the body has no such call (or send) - the clause would hold vacuously", key))
		}
	}
	return nil
}

// envAt builds the environment for contract clauses of the function itself.
func (fg *FG) envAt(st *State, pkg *types.Package, local func(string) (Val, bool)) *Env {
	env := &Env{fg: fg, vars: map[string]Val{}, st: st, old: fg.entrySt, pkg: pkg, local: local}
	if local == nil {
		// with a local resolver (loop invariants) the current value of a reassigned parameter shadows
		// its entry value; the resolver falls back to the parameters itself
		for n, v := range fg.params {
			env.vars[n] = v
		}
	}
	return env
}

func (fg *FG) edgeConds(p, b *ssa.BasicBlock) []string {
	return fg.edge[[2]int{p.Index, b.Index}]
}

func (fg *FG) block(b *ssa.BasicBlock, pkg *types.Package) {
	fg.curBlock = b.Index
	fg.curInstr = nil
	var st *State
	_, isHeader := fg.loopBlocks[b.Index]
	if b.Index == 0 {
		if fg.inlineEntry != nil {
			st = fg.inlineEntry
		} else {
			st = fg.entrySt.clone()
		}
	} else {
		// incoming forward edges
		type inc struct {
			p    *ssa.BasicBlock
			cond string
			pi   int
		}
		var incs []inc
		for pi, p := range b.Preds {
			if fg.isBackEdge(p, b) {
				continue
			}
			if _, done := fg.endSt[p.Index]; !done {
				continue // unreachable predecessor
			}
			conds := fg.edgeConds(p, b)
			if len(conds) == 0 {
				continue
			}
			incs = append(incs, inc{p, smtOr(conds), pi})
		}
		if len(incs) == 0 {
			fg.R[b.Index] = "false"
			fg.endSt[b.Index] = &State{heaps: map[string]string{}}
			return
		}
		var conds []string
		for _, i := range incs {
			conds = append(conds, i.cond)
		}
		r := fg.define(fmt.Sprintf("R.%d", b.Index), "Bool", smtOr(conds))
		fg.R[b.Index] = r
		// merge heaps
		st = &State{heaps: map[string]string{}}
		fams := map[string]bool{}
		for _, i := range incs {
			for f := range fg.endSt[i.p.Index].heaps {
				fams[f] = true
			}
		}
		for _, f := range sortedKeys(fams) {
			var terms []string
			same := true
			for _, i := range incs {
				t, ok := fg.endSt[i.p.Index].heaps[f]
				if !ok {
					t = "H0." + f
					fg.declare(t, fg.heapSort[f])
				}
				terms = append(terms, t)
				if t != terms[0] {
					same = false
				}
			}
			if same {
				st.heaps[f] = terms[0]
				continue
			}
			cur := terms[len(terms)-1]
			for k := len(terms) - 2; k >= 0; k-- {
				cur = fmt.Sprintf("(ite %s %s %s)", incs[k].cond, terms[k], cur)
			}
			st.heaps[f] = fg.define("H."+f, fg.heapSort[f], cur)
		}
		if len(incs) > 1 {
			mi := &mergeInfo{entry: map[string]string{}}
			for f, t := range st.heaps {
				mi.entry[f] = t
			}
			for _, i := range incs {
				mi.preds = append(mi.preds, i.p.Index)
				mi.conds = append(mi.conds, i.cond)
			}
			if fg.merges == nil {
				fg.merges = map[int]*mergeInfo{}
			}
			fg.merges[b.Index] = mi
		}
		// phis
		phiIn := map[*ssa.Phi]Val{}
		for _, in := range b.Instrs {
			phi, ok := in.(*ssa.Phi)
			if !ok {
				continue
			}
			var terms []string
			var clo *closureInfo
			for _, i := range incs {
				v := fg.val(phi.Edges[i.pi])
				if v.Loc != nil && v.T == "" {
					fg.fail("phi of interior addresses is outside the subset")
				}
				terms = append(terms, v.T)
				clo = v.Clo
			}
			cur := terms[len(terms)-1]
			for k := len(terms) - 2; k >= 0; k-- {
				if terms[k] == cur {
					continue
				}
				cur = fmt.Sprintf("(ite %s %s %s)", incs[k].cond, terms[k], cur)
			}
			phiIn[phi] = Val{T: cur, Ty: phi.Type(), Clo: clo}
		}
		if isHeader {
			ord := fg.loopOrd[b.Index]
			invs := fg.c.Loops[ord]
			if len(invs) == 0 && !fg.g.allowNoInv {
				fg.fail("loop %d (block %d) has no invariant", ord, b.Index)
			}
			// inv-init: evaluated with phi := incoming values, heaps := merged pre-loop state
			for _, in := range b.Instrs {
				if phi, ok := in.(*ssa.Phi); ok {
					fg.vals[phi] = phiIn[phi]
				}
			}
			if fg.loopEntrySt == nil {
				fg.loopEntrySt = map[int]*State{}
			}
			fg.loopEntrySt[b.Index] = st.clone()
			env := fg.envAt(st, pkg, fg.localResolver(b, st))
			env.loopEntry = fg.loopEntrySt[b.Index]
			for k, inv := range invs {
				t := env.tr(inv.E)
				fg.oblig("inv-init", fmt.Sprintf("inv-init:loop%d#%s", ord, clauseName(inv, k)), inv.Tag, r, t.T, inv.Src, fmt.Sprintf("%s:%d", inv.File, inv.Line))
			}
			// havoc
			fg.havocLoop(b, st)
			for _, in := range b.Instrs {
				if phi, ok := in.(*ssa.Phi); ok {
					n := fg.valName(phi) + ".h"
					fg.declare(n, fg.sorts.sortOf(phi.Type()))
					v := Val{T: n, Ty: phi.Type(), Clo: phiIn[phi].Clo}
					fg.vals[phi] = v
					fg.assumeTyped(v, st)
				}
			}
			env = fg.envAt(st, pkg, fg.localResolver(b, st))
			env.loopEntry = fg.loopEntrySt[b.Index]
			for _, inv := range invs {
				t := env.tr(inv.E)
				fg.curGroup = groupOf(inv.Tag)
				fg.assume(fmt.Sprintf("(=> %s %s)", r, t.T))
				fg.curGroup = ""
			}
			fg.headSt[b.Index] = st.clone()
		} else {
			for _, in := range b.Instrs {
				if phi, ok := in.(*ssa.Phi); ok {
					v := phiIn[phi]
					bound := fg.bind(phi, v.T)
					bound.Clo = v.Clo
					fg.vals[phi] = bound
				}
			}
		}
	}
	// instructions
	for _, in := range b.Instrs {
		fg.instr(st, in)
	}
	fg.curInstr = nil
	fg.endSt[b.Index] = st
	// terminator
	if len(b.Instrs) == 0 {
		return
	}
	r := fg.R[b.Index]
	switch t := b.Instrs[len(b.Instrs)-1].(type) {
	case *ssa.If:
		c := fg.val(t.Cond)
		fg.addEdge(b, b.Succs[0], fmt.Sprintf("(and %s %s)", r, c.T))
		fg.addEdge(b, b.Succs[1], fmt.Sprintf("(and %s (not %s))", r, c.T))
	case *ssa.Jump:
		fg.addEdge(b, b.Succs[0], r)
	case *ssa.Return:
		fg.ret(b, st, t, pkg)
	case *ssa.Panic:
	default:
		fg.fail("unsupported terminator %T", t)
	}
	// back-edges: inv-step
	for _, s := range b.Succs {
		if !fg.isBackEdge(b, s) {
			continue
		}
		fg.invStep(b, s, st, pkg)
	}
	// exit edges: loop exit clauses
	if len(fg.c.Exits) > 0 {
		for _, s := range b.Succs {
			for h, blocks := range fg.loopBlocks {
				if !blocks[b.Index] || blocks[s.Index] {
					continue
				}
				ord := fg.loopOrd[h]
				cls := fg.c.Exits[ord]
				if len(cls) == 0 {
					continue
				}
				// a return statement written inside the loop is not an exit in this sense (but it is one
				// for "leave" clauses)
				innerReturn := false
				if len(s.Instrs) > 0 {
					if r, ok := s.Instrs[len(s.Instrs)-1].(*ssa.Return); ok && fg.posInLoop(h, r.Pos()) {
						innerReturn = true
					}
					if _, ok := s.Instrs[len(s.Instrs)-1].(*ssa.Panic); ok {
						continue
					}
				}
				cond := smtOr(fg.edgeConds(b, s))
				env := fg.envAt(st, pkg, fg.localResolverAt(b, fn_header(fg, h), st))
				env.loopEntry = fg.loopEntrySt[h]
				for k, q := range cls {
					if innerReturn && !q.Leave {
						continue
					}
					t := env.tr(q.E)
					fg.oblig("exit", fmt.Sprintf("exit:loop%d#%s@b%d", ord, clauseName(q, k), b.Index), q.Tag, cond, t.T, q.Src, fmt.Sprintf("%s:%d", q.File, q.Line))
				}
			}
		}
	}
}

func fn_header(fg *FG, h int) *ssa.BasicBlock { return fg.fn.Blocks[h] }

// posInLoop: does the source position lie within the source extent of the loop with header h?
func (fg *FG) posInLoop(h int, pos token.Pos) bool {
	if !pos.IsValid() {
		return false
	}
	lo, hi := token.NoPos, token.NoPos
	for bi := range fg.loopBlocks[h] {
		for _, in := range fg.fn.Blocks[bi].Instrs {
			if _, isPhi := in.(*ssa.Phi); isPhi {
				continue
			}
			if _, isDbg := in.(*ssa.DebugRef); isDbg {
				continue
			}
			if p := in.Pos(); p.IsValid() {
				if lo == token.NoPos || p < lo {
					lo = p
				}
				if p > hi {
					hi = p
				}
			}
		}
	}
	return lo != token.NoPos && pos >= lo && pos <= hi
}

func (fg *FG) addEdge(p, s *ssa.BasicBlock, cond string) {
	k := [2]int{p.Index, s.Index}
	n := fg.define(fmt.Sprintf("E.%d.%d", p.Index, s.Index), "Bool", cond)
	fg.edge[k] = append(fg.edge[k], n)
}

func (fg *FG) invStep(p, h *ssa.BasicBlock, st *State, pkg *types.Package) {
	ord := fg.loopOrd[h.Index]
	invs := fg.c.Loops[ord]
	// temporarily bind the header phis to the values flowing along this back-edge
	saved := map[*ssa.Phi]Val{}
	pi := -1
	for i, pp := range h.Preds {
		if pp == p {
			pi = i
		}
	}
	for _, in := range h.Instrs {
		if phi, ok := in.(*ssa.Phi); ok {
			saved[phi] = fg.vals[phi]
		}
	}
	newVals := map[*ssa.Phi]Val{}
	for phi := range saved {
		newVals[phi] = fg.val(phi.Edges[pi])
	}
	for phi, v := range newVals {
		fg.vals[phi] = Val{T: v.T, Ty: phi.Type(), Clo: v.Clo}
	}
	cond := smtOr(fg.edgeConds(p, h))
	cb := fg.curBlock
	// a latch that only joins several paths (it writes no memory itself): the invariant is checked in
	// the state of each incoming path separately, which keeps the goal free of if-then-else heaps
	type pathSt struct {
		st   *State
		cond string
		sfx  string
	}
	paths := []pathSt{{st, cond, ""}}
	predsDone := true
	if mi := fg.merges[p.Index]; mi != nil {
		for _, pb := range mi.preds {
			if fg.endSt[pb] == nil {
				predsDone = false
			}
		}
	}
	if mi := fg.merges[p.Index]; mi != nil && predsDone && sameHeaps(mi.entry, st.heaps) {
		paths = nil
		for i, pb := range mi.preds {
			ps := fg.endSt[pb].clone()
			for f, t := range st.heaps {
				if _, ok := ps.heaps[f]; !ok && mi.entry[f] == t {
					if _, declared := fg.endSt[pb].heaps[f]; !declared {
						ps.heaps[f] = "H0." + f
					}
				}
			}
			paths = append(paths, pathSt{ps, fmt.Sprintf("(and %s %s)", cond, mi.conds[i]), fmt.Sprintf("<b%d", pb)})
		}
	}
	for _, pth := range paths {
		env := fg.envAt(pth.st, pkg, fg.localResolver(h, pth.st))
		env.loopEntry = fg.loopEntrySt[h.Index]
		for k, inv := range invs {
			t := env.tr(inv.E)
			fg.oblig("inv-step", fmt.Sprintf("inv-step:loop%d#%s@b%d%s", ord, clauseName(inv, k), p.Index, pth.sfx), inv.Tag, pth.cond, t.T, inv.Src, fmt.Sprintf("%s:%d", inv.File, inv.Line))
		}
	}
	for _, f := range sortedKeys(boolKeys(fg.balHead[h.Index])) {
		if cur, ok := st.heaps[f]; ok {
			fg.oblig("safe", fmt.Sprintf("locks:iter:%s@b%d", strings.TrimPrefix(f, "G_any_"), p.Index), "", cond, fmt.Sprintf("(= %s %s)", cur, fg.balHead[h.Index][f]), "every lock taken in a loop iteration is released before the next one", fg.posOf(fg.fn.Pos()))
		}
	}
	fg.curBlock = cb
	for phi, v := range saved {
		fg.vals[phi] = v
	}
	// step clauses: one iteration relates the state at the loop head (prev) to the state at the back-edge
	if steps := fg.c.Steps[ord]; len(steps) > 0 {
		hst := fg.headSt[h.Index]
		if hst == nil {
			fg.fail("internal: no head state for loop %d", ord)
		}
		penv := fg.envAt(hst, pkg, fg.localResolver(h, hst))
		senv := fg.envAt(st, pkg, fg.localResolverAt(p, h, st))
		senv.prev = penv
		senv.loopEntry = fg.loopEntrySt[h.Index]
		penv.loopEntry = fg.loopEntrySt[h.Index]
		for k, sc := range steps {
			// a step clause may name variables of one arm of the loop body only: at back-edges where they
			// do not resolve the clause does not apply (it must apply at one back-edge at least)
			var tv Val
			applies := true
			func() {
				defer func() {
					if r := recover(); r != nil {
						if ge, ok := r.(genErr); ok && strings.Contains(ge.msg, "unknown identifier") {
							applies = false
							return
						}
						panic(r)
					}
				}()
				tv = senv.tr(sc.E)
			}()
			key := fmt.Sprintf("%d#%d", ord, k)
			if fg.stepApplied == nil {
				fg.stepApplied = map[string]int{}
			}
			if !applies {
				fg.stepApplied[key] += 0
				continue
			}
			fg.stepApplied[key]++
			fg.oblig("inv-step", fmt.Sprintf("step:loop%d#%s@b%d", ord, clauseName(sc, k), p.Index), sc.Tag, cond, tv.T, sc.Src, fmt.Sprintf("%s:%d", sc.File, sc.Line))
		}
	}
}

type mergeInfo struct {
	entry map[string]string
	preds []int
	conds []string
}

func sameHeaps(a, b map[string]string) bool {
	if len(a) != len(b) {
		return false
	}
	for k, v := range a {
		if b[k] != v {
			return false
		}
	}
	return true
}

// havocLoop gives fresh versions to every heap family the loop body may write.
func (fg *FG) havocLoop(h *ssa.BasicBlock, st *State) {
	fams := fg.loopModFamilies(h)
	if fg.loopHavoc == nil {
		fg.loopHavoc = map[int]map[string]bool{}
	}
	done := map[string]bool{}
	fg.loopHavoc[h.Index] = done
	fg.inHavoc = true
	defer func() { fg.inHavoc = false }()
	for _, f := range sortedKeys(fams) {
		if _, ok := fg.heapSort[f]; ok || f == "$alloc" {
			done[f] = true
		}
		if f == "$alloc" {
			a := fg.heap(st, "$alloc", "Int")
			na := fg.havocHeap(st, "$alloc")
			fg.assume(fmt.Sprintf("(>= %s %s)", na, a))
			continue
		}
		if _, ok := fg.heapSort[f]; !ok {
			continue // never materialised so far: first use inside the loop will declare the initial version... keep sound by declaring later
		}
		old := fg.heap(st, f, "")
		nh := fg.havocHeap(st, f)
		if fg.g.ct.Balanced[strings.TrimPrefix(f, "G_any_")] && !fg.modifiesBalanced(f) {
			// automatic loop invariant: the balanced counters are at the loop head what they were before
			// the loop (checked at every back-edge: locks:iter)
			fg.assume(fmt.Sprintf("(= %s %s)", nh, old))
			if fg.balHead == nil {
				fg.balHead = map[int]map[string]string{}
			}
			if fg.balHead[h.Index] == nil {
				fg.balHead[h.Index] = map[string]string{}
			}
			fg.balHead[h.Index][f] = nh
			continue
		}
		// objects that are not reachable for writing stay unchanged: we keep the frame only for
		// references the function may not modify at all (outside modifies and not fresh) — sound and cheap
		fg.loopFrame(f, old, nh)
	}
}

// loopFrame: inside a loop every store passes the frame check, so locations outside the function's
// modifies clause that were allocated before entry are unchanged across iterations.
func (fg *FG) loopFrame(fam, old, nh string) {
	if fg.c == nil || strings.HasPrefix(fam, "IT_seen_") || fam == "G_any_lastSel" || fg.g.ct.Volatile[strings.TrimPrefix(fam, "G_any_")] {
		return
	}
	srt := fg.heapSort[fam]
	if !strings.HasPrefix(srt, "(Array Int ") {
		return
	}
	for _, e := range fg.modset {
		if e.all && e.loc.Heap == fam {
			return // the whole family may change: no frame
		}
	}
	var exc []string
	isElem := strings.HasPrefix(fam, "E_")
	for _, e := range fg.modset {
		if e.loc.Heap != fam {
			continue
		}
		if isElem && e.elems {
			continue // handled below at element granularity
		}
		exc = append(exc, fmt.Sprintf("(= r %s)", e.loc.Ref))
	}
	if isElem {
		// whole arrays not mentioned are unchanged; mentioned arrays are unchanged outside the listed region
		var arrs []string
		for _, e := range fg.modset {
			if e.loc.Heap == fam {
				arrs = append(arrs, fmt.Sprintf("(= r %s)", e.loc.Ref))
			}
		}
		fg.assume(fmt.Sprintf("(forall ((r Int)) (! (=> (and (< r %s) (not %s)) (= (select %s r) (select %s r))) :pattern ((select %s r))))", fg.alloc0, smtOr(arrs), nh, old, nh))
		for _, e := range fg.modset {
			if e.loc.Heap == fam && e.elems {
				fg.assume(fmt.Sprintf("(forall ((x Int)) (! (=> (not (and (<= %s x) (< x %s))) (= (select (select %s %s) x) (select (select %s %s) x))) :pattern ((select (select %s %s) x))))",
					e.lo, e.hi, nh, e.loc.Ref, old, e.loc.Ref, nh, e.loc.Ref))
			}
		}
		return
	}
	fg.assume(fmt.Sprintf("(forall ((r Int)) (! (=> (and (< r %s) (not %s)) (= (select %s r) (select %s r))) :pattern ((select %s r))))", fg.alloc0, smtOr(exc), nh, old, nh))
}

// loopModFamilies computes the heap families that may be written inside the natural loop of h.
func (fg *FG) loopModFamilies(h *ssa.BasicBlock) map[string]bool {
	fams := map[string]bool{}
	for bi := range fg.loopBlocks[h.Index] {
		for _, in := range fg.fn.Blocks[bi].Instrs {
			switch x := in.(type) {
			case *ssa.Store:
				for _, f := range fg.addrFamilies(x.Addr) {
					fams[f] = true
				}
				fg.snapshotCellFamilies(x.Val, fams)
			case *ssa.MakeInterface:
				fg.snapshotCellFamilies(x.X, fams)
			case *ssa.MapUpdate:
				m := types.Unalias(x.Map.Type()).Underlying().(*types.Map)
				mv, ml := fg.mapFamilies(m)
				fams[mv], fams[ml], fams[mapPresence(mv)] = true, true, true
			case *ssa.Alloc, *ssa.MakeSlice, *ssa.MakeMap, *ssa.MakeChan, *ssa.MakeClosure:
				fams["$alloc"] = true
				fg.allocFamilies(x.(ssa.Value), fams)
			case *ssa.Range:
				if m, ok := types.Unalias(x.X.Type()).Underlying().(*types.Map); ok {
					fams["IT_seen_"+shortTypeName(m.Key())] = true
					fams["$alloc"] = true
				}
			case *ssa.Next:
				if rng, ok := x.Iter.(*ssa.Range); ok {
					if m, ok := types.Unalias(rng.X.Type()).Underlying().(*types.Map); ok {
						fams["IT_seen_"+shortTypeName(m.Key())] = true
					}
				}
			case *ssa.Send:
				fams["CH_len"] = true
			case *ssa.Convert:
				fams["$alloc"] = true
				if isByteSlice(types.Unalias(x.Type()).Underlying()) {
					f, s := fg.elemFamily(types.Typ[types.Uint8])
					fg.heapSort[f] = s
					fams[f] = true
				}
			case *ssa.Call:
				fg.callFamilies(x.Common(), fams)
				if fg.lastSelDeclared() {
					fg.heapSort["G_any_lastSel"] = "(Array Int Int)"
					fams["G_any_lastSel"] = true
				}
				for _, vf := range fg.volatileFamilies() {
					fams[vf] = true
				}
			case *ssa.Defer:
				fg.fail("defer inside a loop is outside the subset")
			case *ssa.Go:
			case *ssa.Select:
				for _, s := range x.States {
					if s.Dir == types.SendOnly {
						fams["CH_len"] = true
					}
				}
				if fg.lastSelDeclared() {
					fg.heapSort["G_any_lastSel"] = "(Array Int Int)"
					fams["G_any_lastSel"] = true
				}
				for _, vf := range fg.volatileFamilies() {
					fams[vf] = true
				}
			case *ssa.UnOp:
			}
		}
	}
	return fams
}

func (fg *FG) allocFamilies(v ssa.Value, fams map[string]bool) {
	switch x := v.(type) {
	case *ssa.Alloc:
		el := x.Type().(*types.Pointer).Elem()
		if s, ok := structOf(el); ok {
			for k := range fg.g.ct.GhostDefaults {
				if strings.HasPrefix(k, "any.") {
					fam := "G_any_" + sanitize(strings.TrimPrefix(k, "any."))
					if _, has := fg.heapSort[fam]; !has {
						// materialise the family now so that the loop head can havoc it
						if ty, ok := fg.g.ct.GhostFields[k]; ok {
							env := &Env{fg: fg, vars: map[string]Val{}, st: &State{heaps: map[string]string{}}}
							t, srt := env.resolveType(ty)
							if t != nil {
								srt = fg.sorts.sortOf(t)
							}
							fg.heapSort[fam] = "(Array Int " + srt + ")"
						}
					}
					if _, has := fg.heapSort[fam]; has {
						fams[fam] = true
					}
				}
			}
			for i := 0; i < s.NumFields(); i++ {
				f, srt := fg.fieldFamily(el, s, i)
				fg.heapSort[f] = srt
				fams[f] = true
			}
		} else if arr, ok := types.Unalias(el).Underlying().(*types.Array); ok {
			f, srt := fg.elemFamily(arr.Elem())
			fg.heapSort[f] = srt
			fams[f] = true
		} else {
			f, srt := fg.cellFamily(el)
			fg.heapSort[f] = srt
			fams[f] = true
		}
	case *ssa.MakeSlice:
		el := types.Unalias(x.Type()).Underlying().(*types.Slice).Elem()
		f, srt := fg.elemFamily(el)
		fg.heapSort[f] = srt
		fams[f] = true
	case *ssa.MakeMap:
		m := types.Unalias(x.Type()).Underlying().(*types.Map)
		mv, ml := fg.mapFamilies(m)
		fams[mv], fams[ml], fams[mapPresence(mv)] = true, true, true
	case *ssa.MakeChan:
		fams["CH_len"], fams["CH_cap"], fams["CH_closed"] = true, true, true
		fg.heapSort["CH_len"] = "(Array Int Int)"
		fg.heapSort["CH_cap"] = "(Array Int Int)"
		fg.heapSort["CH_closed"] = "(Array Int Bool)"
	}
}

// addrFamilies statically determines the heap family written through an address value.
func (fg *FG) addrFamilies(a ssa.Value) []string {
	switch x := a.(type) {
	case *ssa.IndexAddr:
		switch u := types.Unalias(x.X.Type()).Underlying().(type) {
		case *types.Slice:
			f, s := fg.elemFamily(u.Elem())
			fg.heapSort[f] = s
			return []string{f}
		case *types.Pointer:
			if fa, ok := x.X.(*ssa.FieldAddr); ok {
				return fg.addrFamilies(fa)
			}
			if ia, ok := x.X.(*ssa.IndexAddr); ok {
				return fg.addrFamilies(ia)
			}
			arr := types.Unalias(u.Elem()).Underlying().(*types.Array)
			f, s := fg.elemFamily(arr.Elem())
			fg.heapSort[f] = s
			return []string{f}
		}
	case *ssa.FieldAddr:
		switch y := x.X.(type) {
		case *ssa.IndexAddr:
			return fg.addrFamilies(y)
		case *ssa.FieldAddr:
			// nested struct field: root family of the outer address
			return fg.addrFamilies(y)
		}
		pt := types.Unalias(x.X.Type()).Underlying().(*types.Pointer)
		s, _ := structOf(pt.Elem())
		f, srt := fg.fieldFamily(pt.Elem(), s, x.Field)
		fg.heapSort[f] = srt
		return []string{f}
	}
	pt, ok := types.Unalias(a.Type()).Underlying().(*types.Pointer)
	if !ok {
		return nil
	}
	el := pt.Elem()
	if s, ok := structOf(el); ok {
		var out []string
		for i := 0; i < s.NumFields(); i++ {
			f, srt := fg.fieldFamily(el, s, i)
			fg.heapSort[f] = srt
			out = append(out, f)
		}
		return out
	}
	if arr, ok := types.Unalias(el).Underlying().(*types.Array); ok {
		f, srt := fg.elemFamily(arr.Elem())
		fg.heapSort[f] = srt
		return []string{f}
	}
	f, srt := fg.cellFamily(el)
	fg.heapSort[f] = srt
	return []string{f}
}

// callFamilies adds the families a call may write (from the callee's modifies clause, by static typing).
func (fg *FG) callFamilies(cc *ssa.CallCommon, fams map[string]bool) {
	fams["$alloc"] = true
	if b, ok := cc.Value.(*ssa.Builtin); ok {
		switch b.Name() {
		case "append", "copy":
			if sl, ok := types.Unalias(cc.Args[0].Type()).Underlying().(*types.Slice); ok {
				f, s := fg.elemFamily(sl.Elem())
				fg.heapSort[f] = s
				fams[f] = true
			}
		case "delete":
			m := types.Unalias(cc.Args[0].Type()).Underlying().(*types.Map)
			mv, ml := fg.mapFamilies(m)
			fams[mv], fams[ml], fams[mapPresence(mv)] = true, true, true
		case "close":
			fams["CH_closed"] = true
		}
		return
	}
	var c *Contract
	var callee *ssa.Function
	ckey := ""
	if cc.IsInvoke() {
		ckey = fg.g.ifaceKey(cc.Value.Type(), cc.Method.Name())
		c = fg.g.ct.C[ckey]
		if c == nil {
			c = fg.g.findIfaceContract(cc.Value.Type(), cc.Method.Name())
		}
	} else if callee = cc.StaticCallee(); callee != nil {
		ckey = fg.g.keyOf(callee)
		c = fg.g.contractFor(callee)
	} else if mc, ok := cc.Value.(*ssa.MakeClosure); ok {
		callee = mc.Fn.(*ssa.Function)
		ckey = fg.g.keyOf(callee)
		c = fg.g.contractFor(callee)
	} else {
		// call through a function value: its function-type contract, if one is declared
		name := fg.funcValueName(cc.Value)
		mode := ""
		if fg.c != nil {
			mode = fg.c.FuncTypes[name]
		}
		if mode == "" {
			mode = fg.g.fieldFuncType(cc.Value)
		}
		if mode != "" && mode != "pure" {
			c = fg.g.ct.C[mode]
			if c == nil && fg.c != nil {
				c = fg.g.ct.C[fg.c.Pkg+"."+mode]
			}
		}
		if c == nil {
			if nt, ok := types.Unalias(cc.Value.Type()).(*types.Named); ok && nt.Obj().Pkg() != nil {
				c = fg.g.ct.C[nt.Obj().Pkg().Name()+"."+nt.Obj().Name()]
			}
		}
		if c == nil && mode != "pure" {
			// a closure value whose target is only known at translation time: be conservative about
			// what the enclosing function's closures may write
			for _, af := range fg.fn.AnonFuncs {
				if ac := fg.g.contractFor(af); ac != nil {
					fg.contractFamilies(ac, af, nil, fams)
				}
			}
		}
	}
	// specialisation by the dynamic type of an interface argument (key<T>), as in the call rule
	if ckey != "" {
		for _, a := range cc.Args {
			if mi, ok := a.(*ssa.MakeInterface); ok {
				k := ckey + "<" + types.TypeString(mi.X.Type(), func(p *types.Package) string { return p.Name() }) + ">"
				if sc := fg.g.ct.C[k]; sc != nil {
					c = sc
					break
				}
			}
		}
	}
	// interior addresses passed to a callee that writes memory: the callee writes through them
	if c == nil || len(c.Modifies) > 0 || !c.ModGiven {
		for _, a := range cc.Args {
			switch a.(type) {
			case *ssa.FieldAddr, *ssa.IndexAddr:
				for _, f := range fg.addrFamilies(a) {
					fams[f] = true
				}
			}
		}
	}
	// "callsonce f": the callee stands for one call of the closure f
	if c != nil && c.CallsOnce != "" {
		for _, a := range cc.Args {
			for {
				if ct, ok := a.(*ssa.ChangeType); ok {
					a = ct.X
					continue
				}
				break
			}
			if mc, ok := a.(*ssa.MakeClosure); ok {
				cf := mc.Fn.(*ssa.Function)
				if cfc := fg.g.contractFor(cf); cfc != nil {
					fg.contractFamilies(cfc, cf, nil, fams)
				} else {
					fg.bodyFamilies(cf, fams, 0)
				}
			}
		}
		return
	}
	if c == nil {
		// no contract: a small in-repo function that the call rule inlines writes what its body writes
		if callee != nil && callee.Blocks != nil && fg.g.inRepo(callee) {
			fg.bodyFamilies(callee, fams, 0)
		}
		return
	}
	fg.contractFamilies(c, callee, cc, fams)
}

// snapshotCellFamilies: an interior address that is stored to memory or converted to an interface is
// modelled by a fresh cell / object holding a copy of the pointee - which writes that cell's family.
func (fg *FG) snapshotCellFamilies(v ssa.Value, fams map[string]bool) {
	switch v.(type) {
	case *ssa.FieldAddr, *ssa.IndexAddr:
	default:
		return
	}
	pt, ok := types.Unalias(v.Type()).Underlying().(*types.Pointer)
	if !ok {
		return
	}
	fams["$alloc"] = true
	el := pt.Elem()
	if s, isS := structOf(el); isS {
		for i := 0; i < s.NumFields(); i++ {
			f, srt := fg.fieldFamily(el, s, i)
			fg.heapSort[f] = srt
			fams[f] = true
		}
		return
	}
	if _, isA := types.Unalias(el).Underlying().(*types.Array); isA {
		return
	}
	f, srt := fg.cellFamily(el)
	fg.heapSort[f] = srt
	fams[f] = true
}

// bodyFamilies collects the heap families the body of an (inlined) function may write.
func (fg *FG) bodyFamilies(fn *ssa.Function, fams map[string]bool, depth int) {
	if depth > 4 {
		return
	}
	for _, b := range fn.Blocks {
		for _, in := range b.Instrs {
			switch x := in.(type) {
			case *ssa.Store:
				for _, f := range fg.addrFamilies(x.Addr) {
					fams[f] = true
				}
			case *ssa.MapUpdate:
				m := types.Unalias(x.Map.Type()).Underlying().(*types.Map)
				mv, ml := fg.mapFamilies(m)
				fams[mv], fams[ml], fams[mapPresence(mv)] = true, true, true
			case *ssa.Alloc, *ssa.MakeSlice, *ssa.MakeMap, *ssa.MakeChan, *ssa.MakeClosure:
				fams["$alloc"] = true
				fg.allocFamilies(x.(ssa.Value), fams)
			case *ssa.Send:
				fams["CH_len"] = true
			case *ssa.Select:
				for _, s := range x.States {
					if s.Dir == types.SendOnly {
						fams["CH_len"] = true
					}
				}
				if fg.lastSelDeclared() {
					fg.heapSort["G_any_lastSel"] = "(Array Int Int)"
					fams["G_any_lastSel"] = true
				}
				for _, vf := range fg.volatileFamilies() {
					fams[vf] = true
				}
			case *ssa.Call:
				fg.callFamilies(x.Common(), fams)
				if fg.lastSelDeclared() {
					fg.heapSort["G_any_lastSel"] = "(Array Int Int)"
					fams["G_any_lastSel"] = true
				}
				for _, vf := range fg.volatileFamilies() {
					fams[vf] = true
				}
			case *ssa.Defer:
				fg.callFamilies(x.Common(), fams)
				if fg.lastSelDeclared() {
					fg.heapSort["G_any_lastSel"] = "(Array Int Int)"
					fams["G_any_lastSel"] = true
				}
				for _, vf := range fg.volatileFamilies() {
					fams[vf] = true
				}
			}
		}
	}
}

// contractFamilies: dry evaluation of a contract's modifies clause to obtain the families it names.
func (fg *FG) contractFamilies(c *Contract, callee *ssa.Function, cc *ssa.CallCommon, fams map[string]bool) {
	if len(c.Modifies) == 0 {
		return
	}
	// dry evaluation of the modifies clause with dummy arguments to obtain the families
	env := &Env{fg: fg, vars: map[string]Val{}, st: &State{heaps: map[string]string{}}}
	if p := fg.g.pkgByName(c.Pkg); p != nil {
		env.pkg = p
	}
	var argTys []types.Type
	var names []string
	if cc != nil {
		sig := cc.Signature()
		names = fg.paramNames(c, callee, sig, cc.IsInvoke())
		if cc.IsInvoke() {
			argTys = append(argTys, cc.Value.Type())
		}
		for _, a := range cc.Args {
			argTys = append(argTys, a.Type())
		}
	} else if callee != nil {
		names = fg.paramNames(c, callee, callee.Signature, false)
		for _, p := range callee.Params {
			argTys = append(argTys, p.Type())
		}
	}
	// the caller's own parameters are visible to function-type contracts
	for n, v := range fg.params {
		if _, clash := env.vars[n]; !clash {
			env.vars[n] = Val{T: "dummy", Ty: v.Ty, Sort: v.Sort}
		}
	}
	env.vars["self"] = Val{T: "dummy", Sort: "Int"}
	for i, n := range names {
		if i < len(argTys) {
			env.vars[n] = Val{T: "dummy", Ty: argTys[i]}
		}
	}
	if callee != nil {
		for _, f := range callee.FreeVars {
			env.vars[f.Name()] = Val{T: "dummy", Ty: f.Type()}
		}
	}
	// dry run must not leave declarations behind: snapshot and restore
	snapItems, snapDecls := len(fg.items), len(fg.decls)
	savedDeclSet := map[string]bool{}
	for k, v := range fg.declSet {
		savedDeclSet[k] = v
	}
	func() {
		defer func() {
			if r := recover(); r != nil {
				if _, ok := r.(genErr); !ok {
					panic(r)
				}
			}
		}()
		for _, m := range fg.evalModifies(c, env) {
			fams[m.loc.Heap] = true
			if strings.HasPrefix(m.loc.Heap, "MV_") {
				fams[mapPresence(m.loc.Heap)] = true
				fams["ML_"+m.loc.Heap[3:]] = true
			}
		}
	}()
	fg.items = fg.items[:snapItems]
	fg.decls = fg.decls[:snapDecls]
	fg.declSet = savedDeclSet
}

// localResolver resolves source-level variable names at a loop header.
func (fg *FG) localResolver(h *ssa.BasicBlock, st *State) func(string) (Val, bool) {
	return fg.localResolverAt(nil, h, st)
}

// localResolverAt resolves names at the end of block at (nil: at the head of loop header h).
func (fg *FG) localResolverAt(at *ssa.BasicBlock, h *ssa.BasicBlock, st *State) func(string) (Val, bool) {
	return func(name string) (Val, bool) {
		// 1. phi at the header
		if at == nil {
			for _, in := range h.Instrs {
				if phi, ok := in.(*ssa.Phi); ok && phi.Comment == name {
					return fg.vals[phi], true
				}
			}
		}
		// free variables of closures denote the captured cell (a pointer), as in the closure's contract
		for _, fv := range fg.fn.FreeVars {
			if fv.Name() == name {
				return fg.vals[fv], true
			}
		}
		// 2. latest definition dominating the header: phis in dominating blocks and debug refs
		var best ssa.Value
		var bestBlock *ssa.BasicBlock
		bestIdx := -1
		bestAddr := false
		consider := func(v ssa.Value, blk *ssa.BasicBlock, idx int, isAddr bool) {
			if at == nil {
				if blk == nil || !(blk.Dominates(h)) || (blk == h) {
					return
				}
			} else if blk == nil || !blk.Dominates(at) {
				return
			}
			if _, ok := fg.vals[v]; !ok {
				if _, isC := v.(*ssa.Const); !isC {
					if _, isP := v.(*ssa.Parameter); !isP {
						return
					}
				}
			}
			better := false
			if bestBlock == nil {
				better = true
			} else if blk == bestBlock {
				better = idx > bestIdx
			} else if bestBlock.Dominates(blk) {
				better = true
			}
			if better {
				best, bestBlock, bestIdx, bestAddr = v, blk, idx, isAddr
			}
		}
		// a variable that lives in a cell (captured by a closure, or its address taken) is read from
		// the cell: the value debug references of its assignments go stale with the next assignment
		cellOf := map[token.Pos]*ssa.Alloc{}
		for _, b := range fg.fn.Blocks {
			for _, in := range b.Instrs {
				if a, ok := in.(*ssa.Alloc); ok && a.Comment == name && a.Pos().IsValid() {
					cellOf[a.Pos()] = a
				}
			}
		}
		for _, b := range fg.fn.Blocks {
			for i, in := range b.Instrs {
				switch x := in.(type) {
				case *ssa.Phi:
					if x.Comment == name {
						consider(x, b, i, false)
					}
				case *ssa.DebugRef:
					if x.Object() != nil && x.Object().Name() == name && !x.IsAddr {
						if a := cellOf[x.Object().Pos()]; a != nil {
							consider(a, b, i, true)
							continue
						}
					}
					if id, ok := x.Expr.(interface{ String() string }); ok {
						_ = id
					}
					if x.Object() != nil && x.Object().Name() == name {
						// (a selector s.m also leaves a debug reference, for the FIELD object m: not a local)
						if vo, isVar := x.Object().(*types.Var); isVar && !vo.IsField() {
							consider(x.X, b, i, x.IsAddr)
						}
					}
				case *ssa.Alloc:
					if x.Comment == name {
						consider(x, b, i, true)
					}
				}
			}
		}
		if best != nil {
			v := fg.val(best)
			if bestAddr {
				l := fg.locOf(v)
				return Val{T: fg.load(st, l), Ty: l.Ty, Clo: fg.closureAt(l)}, true
			}
			return v, true
		}
		if v, ok := fg.params[name]; ok {
			return v, true
		}
		return Val{}, false
	}
}

// ret emits the postcondition obligations at a return.
func (fg *FG) ret(b *ssa.BasicBlock, st *State, t *ssa.Return, pkg *types.Package) {
	if fg.inlineRets != nil {
		var rs []Val
		for _, rv := range t.Results {
			v := fg.val(rv)
			if v.Loc != nil && v.T == "" {
				fg.fail("interior address returned from inlined function")
			}
			rs = append(rs, v)
		}
		*fg.inlineRets = append(*fg.inlineRets, inlineRet{guard: fg.R[b.Index], results: rs, st: st})
		return
	}
	fg.retCount++
	ord := fg.retOrdinal(t)
	label := fmt.Sprintf("ret%d:L%d", ord, fg.g.fset.Position(t.Pos()).Line)
	// a return block that only joins several paths: postconditions are checked per incoming path
	type pathSt struct {
		st   *State
		cond string
		sfx  string
	}
	paths := []pathSt{{st, fg.R[b.Index], ""}}
	if mi := fg.merges[b.Index]; mi != nil && sameHeaps(mi.entry, st.heaps) {
		all := true
		for _, pb := range mi.preds {
			if fg.endSt[pb] == nil {
				all = false
			}
		}
		if all {
			paths = nil
			for i, pb := range mi.preds {
				paths = append(paths, pathSt{fg.endSt[pb].clone(), fmt.Sprintf("(and %s %s)", fg.R[b.Index], mi.conds[i]), fmt.Sprintf("<b%d", pb)})
			}
		}
	}
	for name := range fg.g.ct.Balanced {
		f := "G_any_" + sanitize(name)
		if fg.modifiesBalanced(f) {
			continue
		}
		for _, pth := range paths {
			cur, touched := pth.st.heaps[f]
			if !touched {
				continue
			}
			entry := "H0." + f
			if e, ok := fg.entrySt.heaps[f]; ok {
				entry = e
			} else {
				fg.declare(entry, fg.heapSort[f])
			}
			if cur == entry {
				continue
			}
			fg.oblig("safe", fmt.Sprintf("locks:balanced:%s@%s%s", name, label, pth.sfx), "", pth.cond, fmt.Sprintf("(= %s %s)", cur, entry), "the function returns with every lock it took released", fg.posOf(t.Pos()))
		}
	}
	for _, pth := range paths {
		env := fg.envAt(pth.st, pkg, nil)
		if len(fg.c.GhostSets) > 0 {
			genv := fg.envAt(pth.st, pkg, nil)
			for i, rv := range t.Results {
				if i < len(fg.results) {
					v := fg.val(rv)
					genv.vars[fg.results[i]] = Val{T: v.T, Ty: fg.fn.Signature.Results().At(i).Type(), Clo: v.Clo}
				}
			}
			for _, gs := range fg.c.GhostSets {
				target := gs[0].E
				var idx *Val
				if target.Kind == SIndex {
					// one entry of a ghost map: g[k] = e
					iv := genv.tr(target.B)
					idx = &iv
					target = target.A
				}
				l := fg.specLoc(target, genv)
				if l.Kind != LGhost {
					fg.fail("ghostset: %s is not a ghost field", gs[0].Src)
				}
				v := genv.tr(gs[1].E)
				if idx != nil {
					v = Val{T: fmt.Sprintf("(store %s %s %s)", fg.load(pth.st, l), idx.T, v.T), Sort: v.Sort}
				}
				saved := fg.R[fg.curBlock]
				fg.R[fg.curBlock] = pth.cond
				fg.store(pth.st, l, v.T)
				fg.R[fg.curBlock] = saved
			}
			env = fg.envAt(pth.st, pkg, nil)
		}
		for i, rv := range t.Results {
			v := fg.val(rv)
			if v.Loc != nil && v.T == "" {
				fg.fail("interior address returned")
			}
			if i < len(fg.results) {
				env.vars[fg.results[i]] = Val{T: v.T, Ty: fg.fn.Signature.Results().At(i).Type(), Clo: v.Clo}
				if len(t.Results) == 1 {
					env.vars["result"] = env.vars[fg.results[i]]
				}
			}
		}
		for k, q := range fg.c.Ensures {
			tv := env.tr(q.E)
			fg.oblig("post", fmt.Sprintf("post:%s@%s%s", clauseName(q, k), label, pth.sfx), q.Tag, pth.cond, tv.T, q.Src, fmt.Sprintf("%s:%d", q.File, q.Line))
		}
	}
	if fg.c.DeadRets[ord] {
		// declared unreachable under the contract: must indeed be unreachable
		fg.oblig("dead", fmt.Sprintf("dead:return@%s", label), "", fg.R[b.Index], "false", "return declared dead", fg.posOf(t.Pos()))
	} else {
		fg.cover(fmt.Sprintf("cover:return@%s", label), fg.R[b.Index])
	}
}

// retOrdinal numbers the return statements of the function by source position.
func (fg *FG) retOrdinal(t *ssa.Return) int {
	n := 0
	for _, b := range fg.fn.Blocks {
		if len(b.Instrs) == 0 {
			continue
		}
		if r, ok := b.Instrs[len(b.Instrs)-1].(*ssa.Return); ok && r != t {
			if r.Pos() < t.Pos() || (r.Pos() == t.Pos() && b.Index < t.Block().Index) {
				n++
			}
		}
	}
	return n
}

// modifiesBalanced: does the function's own contract list the balanced counter under modifies
// (a function that is meant to return holding a lock)?
func (fg *FG) modifiesBalanced(fam string) bool {
	if fg.c == nil {
		return false
	}
	for _, m := range fg.c.Modifies {
		if strings.Contains(m.Src, "."+strings.TrimPrefix(fam, "G_any_")) {
			return true
		}
	}
	return false
}

func boolKeys(m map[string]string) map[string]bool {
	out := map[string]bool{}
	for k := range m {
		out[k] = true
	}
	return out
}
