package main

// Specification expression language: Go-expression syntax extended with
//   forall x T, y T :: e      exists x T :: e
//   a ==> b   a <==> b        c ? a : b
//   old(e)    result / named results
// Parsed by a small recursive-descent parser (no executable code is ever produced).

import (
	"fmt"
	"strings"
	"unicode"
)

type SKind int

const (
	SIdent SKind = iota
	SInt
	SStr
	SChar
	SBool
	SNil
	SUnary  // Op, A
	SBinary // Op, A, B
	SCond   // A ? B : C
	SSel    // A.Name
	SIndex  // A[B]
	SSlice  // A[B:C]  (B or C may be nil)
	SCall   // A(Args)
	SOld    // old(A)
	SQuant  // Op = forall|exists, Vars, A
	SZero   // T{} zero composite literal; Type in TypeS
	SLit    // T{f: e, ...}: TypeS, Fields, Args
)

type SVar struct {
	Name string
	Type string
}

type SExpr struct {
	Kind   SKind
	Op     string
	Name   string
	A, B, C *SExpr
	Args   []*SExpr
	Fields []string
	Vars   []SVar
	TypeS  string
	Pos    int
}

func (e *SExpr) String() string {
	if e == nil {
		return "<nil>"
	}
	switch e.Kind {
	case SIdent, SInt, SBool:
		return e.Name
	case SStr:
		return fmt.Sprintf("%q", e.Name)
	case SChar:
		return "'" + e.Name + "'"
	case SNil:
		return "nil"
	case SUnary:
		return e.Op + e.A.String()
	case SBinary:
		return "(" + e.A.String() + " " + e.Op + " " + e.B.String() + ")"
	case SCond:
		return "(" + e.A.String() + " ? " + e.B.String() + " : " + e.C.String() + ")"
	case SSel:
		return e.A.String() + "." + e.Name
	case SIndex:
		return e.A.String() + "[" + e.B.String() + "]"
	case SSlice:
		s := e.A.String() + "["
		if e.B != nil {
			s += e.B.String()
		}
		s += ":"
		if e.C != nil {
			s += e.C.String()
		}
		return s + "]"
	case SCall:
		var as []string
		for _, a := range e.Args {
			as = append(as, a.String())
		}
		return e.A.String() + "(" + strings.Join(as, ", ") + ")"
	case SOld:
		return "old(" + e.A.String() + ")"
	case SQuant:
		var vs []string
		for _, v := range e.Vars {
			vs = append(vs, v.Name+" "+v.Type)
		}
		return "(" + e.Op + " " + strings.Join(vs, ", ") + " :: " + e.A.String() + ")"
	case SZero:
		return e.TypeS + "{}"
	case SLit:
		var as []string
		for i, a := range e.Args {
			as = append(as, e.Fields[i]+": "+a.String())
		}
		return e.TypeS + "{" + strings.Join(as, ", ") + "}"
	}
	return "?"
}

type tok struct {
	k   string // "id", "int", "str", "char", "op", "eof"
	s   string
	pos int
}

type sparser struct {
	src  string
	toks []tok
	p    int
}

func lexSpec(src string) ([]tok, error) {
	var out []tok
	i := 0
	ops := []string{"<==>", "==>", "::", "&&", "||", "==", "!=", "<=", ">=", "<<", ">>", "&^"}
	for i < len(src) {
		c := src[i]
		if c == ' ' || c == '\t' || c == '\n' || c == '\r' {
			i++
			continue
		}
		if c == '/' && i+1 < len(src) && src[i+1] == '/' {
			// trailing comment
			break
		}
		if unicode.IsLetter(rune(c)) || c == '_' {
			j := i
			for j < len(src) && (unicode.IsLetter(rune(src[j])) || unicode.IsDigit(rune(src[j])) || src[j] == '_' || src[j] == '$') {
				j++
			}
			out = append(out, tok{"id", src[i:j], i})
			i = j
			continue
		}
		if unicode.IsDigit(rune(c)) {
			j := i
			for j < len(src) && (unicode.IsDigit(rune(src[j])) || src[j] == 'x' || src[j] == 'X' || (src[j] >= 'a' && src[j] <= 'f') || (src[j] >= 'A' && src[j] <= 'F') || src[j] == '_') {
				j++
			}
			out = append(out, tok{"int", strings.ReplaceAll(src[i:j], "_", ""), i})
			i = j
			continue
		}
		if c == '"' {
			j := i + 1
			var sb strings.Builder
			for j < len(src) && src[j] != '"' {
				if src[j] == '\\' && j+1 < len(src) {
					j++
					switch src[j] {
					case 'n':
						sb.WriteByte('\n')
					case 't':
						sb.WriteByte('\t')
					case '0':
						sb.WriteByte(0)
					default:
						sb.WriteByte(src[j])
					}
					j++
					continue
				}
				sb.WriteByte(src[j])
				j++
			}
			if j >= len(src) {
				return nil, fmt.Errorf("unterminated string at %d", i)
			}
			out = append(out, tok{"str", sb.String(), i})
			i = j + 1
			continue
		}
		if c == '\'' {
			j := i + 1
			for j < len(src) && src[j] != '\'' {
				j++
			}
			if j >= len(src) {
				return nil, fmt.Errorf("unterminated char at %d", i)
			}
			out = append(out, tok{"char", src[i+1 : j], i})
			i = j + 1
			continue
		}
		matched := false
		for _, op := range ops {
			if strings.HasPrefix(src[i:], op) {
				out = append(out, tok{"op", op, i})
				i += len(op)
				matched = true
				break
			}
		}
		if matched {
			continue
		}
		out = append(out, tok{"op", string(c), i})
		i++
	}
	out = append(out, tok{"eof", "", len(src)})
	return out, nil
}

func parseSpec(src string) (e *SExpr, err error) {
	toks, err := lexSpec(src)
	if err != nil {
		return nil, err
	}
	p := &sparser{src: src, toks: toks}
	defer func() {
		if r := recover(); r != nil {
			if pe, ok := r.(parseErr); ok {
				err = fmt.Errorf("spec parse error: %s in %q", string(pe), src)
				return
			}
			panic(r)
		}
	}()
	e = p.expr()
	if p.cur().k != "eof" {
		p.fail("unexpected token %q", p.cur().s)
	}
	return e, nil
}

type parseErr string

func (p *sparser) fail(f string, a ...interface{}) {
	panic(parseErr(fmt.Sprintf(f, a...) + fmt.Sprintf(" at offset %d", p.cur().pos)))
}
func (p *sparser) cur() tok  { return p.toks[p.p] }
func (p *sparser) next() tok { t := p.toks[p.p]; p.p++; return t }
func (p *sparser) isOp(s string) bool {
	return p.cur().k == "op" && p.cur().s == s
}
func (p *sparser) accept(s string) bool {
	if p.isOp(s) {
		p.p++
		return true
	}
	return false
}
func (p *sparser) expect(s string) {
	if !p.accept(s) {
		p.fail("expected %q, got %q", s, p.cur().s)
	}
}

// parseType parses a type expression and returns its source text.
func (p *sparser) parseType() string {
	var sb strings.Builder
	for {
		if p.accept("*") {
			sb.WriteString("*")
			continue
		}
		if p.isOp("[") {
			p.next()
			if p.cur().k == "int" {
				sb.WriteString("[" + p.next().s + "]")
				p.expect("]")
			} else {
				p.expect("]")
				sb.WriteString("[]")
			}
			continue
		}
		break
	}
	if p.cur().k != "id" {
		p.fail("expected type name, got %q", p.cur().s)
	}
	if (p.cur().s == "map" || p.cur().s == "seq" || p.cur().s == "gomap") && p.toks[p.p+1].k == "op" && p.toks[p.p+1].s == "[" {
		kw := p.next().s
		p.expect("[")
		inner := p.parseType()
		p.expect("]")
		if kw == "seq" {
			return sb.String() + "seq[" + inner + "]"
		}
		return sb.String() + kw + "[" + inner + "]" + p.parseType()
	}
	sb.WriteString(p.next().s)
	if p.isOp(".") && p.toks[p.p+1].k == "id" {
		p.next()
		sb.WriteString("." + p.next().s)
	}
	// generic instantiation: Name[T1, T2]
	if p.isOp("[") && (p.toks[p.p+1].k == "id" || (p.toks[p.p+1].k == "op" && (p.toks[p.p+1].s == "*" || p.toks[p.p+1].s == "["))) {
		p.next()
		var args []string
		for {
			args = append(args, p.parseType())
			if !p.accept(",") {
				break
			}
		}
		p.expect("]")
		sb.WriteString("[" + strings.Join(args, ",") + "]")
	}
	return sb.String()
}

func (p *sparser) expr() *SExpr {
	if p.cur().k == "id" && (p.cur().s == "forall" || p.cur().s == "exists") {
		op := p.next().s
		var vars []SVar
		for {
			if p.cur().k != "id" {
				p.fail("expected bound variable")
			}
			names := []string{p.next().s}
			for p.accept(",") {
				// either another name of same type, or next var group; we peek: name followed by type
				names = append(names, p.next().s)
				if !p.isOp(",") {
					break
				}
			}
			// the last consumed name might actually be followed by a type
			ty := p.parseType()
			for _, n := range names {
				vars = append(vars, SVar{n, ty})
			}
			if p.accept(",") {
				continue
			}
			break
		}
		p.expect("::")
		body := p.expr()
		return &SExpr{Kind: SQuant, Op: op, Vars: vars, A: body}
	}
	return p.cond()
}

func (p *sparser) cond() *SExpr {
	a := p.iff()
	if p.accept("?") {
		b := p.expr()
		p.expect(":")
		c := p.expr()
		return &SExpr{Kind: SCond, A: a, B: b, C: c}
	}
	return a
}

func (p *sparser) iff() *SExpr {
	a := p.implies()
	for p.accept("<==>") {
		b := p.implies()
		a = &SExpr{Kind: SBinary, Op: "<==>", A: a, B: b}
	}
	return a
}

func (p *sparser) implies() *SExpr {
	a := p.or()
	if p.accept("==>") {
		var b *SExpr
		if p.cur().k == "id" && (p.cur().s == "forall" || p.cur().s == "exists") {
			b = p.expr()
		} else {
			b = p.implies()
		}
		return &SExpr{Kind: SBinary, Op: "==>", A: a, B: b}
	}
	return a
}

func (p *sparser) or() *SExpr {
	a := p.and()
	for p.accept("||") {
		b := p.and()
		a = &SExpr{Kind: SBinary, Op: "||", A: a, B: b}
	}
	return a
}

func (p *sparser) and() *SExpr {
	a := p.cmp()
	for p.accept("&&") {
		var b *SExpr
		if p.cur().k == "id" && (p.cur().s == "forall" || p.cur().s == "exists") {
			b = p.expr()
		} else {
			b = p.cmp()
		}
		a = &SExpr{Kind: SBinary, Op: "&&", A: a, B: b}
	}
	return a
}

func (p *sparser) cmp() *SExpr {
	a := p.add()
	for {
		t := p.cur()
		if t.k == "op" && (t.s == "==" || t.s == "!=" || t.s == "<" || t.s == "<=" || t.s == ">" || t.s == ">=") {
			p.next()
			b := p.add()
			a = &SExpr{Kind: SBinary, Op: t.s, A: a, B: b}
			continue
		}
		return a
	}
}

func (p *sparser) add() *SExpr {
	a := p.mul()
	for {
		t := p.cur()
		if t.k == "op" && (t.s == "+" || t.s == "-" || t.s == "|" || t.s == "^") {
			p.next()
			b := p.mul()
			a = &SExpr{Kind: SBinary, Op: t.s, A: a, B: b}
			continue
		}
		return a
	}
}

func (p *sparser) mul() *SExpr {
	a := p.unary()
	for {
		t := p.cur()
		if t.k == "op" && (t.s == "*" || t.s == "/" || t.s == "%" || t.s == "&" || t.s == "<<" || t.s == ">>") {
			p.next()
			b := p.unary()
			a = &SExpr{Kind: SBinary, Op: t.s, A: a, B: b}
			continue
		}
		return a
	}
}

func (p *sparser) unary() *SExpr {
	t := p.cur()
	if t.k == "op" && (t.s == "!" || t.s == "-" || t.s == "*" || t.s == "&") {
		p.next()
		a := p.unary()
		return &SExpr{Kind: SUnary, Op: t.s, A: a}
	}
	return p.postfix()
}

func (p *sparser) postfix() *SExpr {
	a := p.primary()
	for {
		switch {
		case p.isOp("."):
			p.next()
			if p.cur().k != "id" {
				p.fail("expected field name after '.'")
			}
			a = &SExpr{Kind: SSel, A: a, Name: p.next().s}
		case p.isOp("["):
			p.next()
			var lo, hi *SExpr
			if p.isOp(":") {
				p.next()
				if !p.isOp("]") {
					hi = p.expr()
				}
				p.expect("]")
				a = &SExpr{Kind: SSlice, A: a, B: nil, C: hi}
				continue
			}
			lo = p.expr()
			if p.accept(":") {
				if !p.isOp("]") {
					hi = p.expr()
				}
				p.expect("]")
				a = &SExpr{Kind: SSlice, A: a, B: lo, C: hi}
				continue
			}
			p.expect("]")
			a = &SExpr{Kind: SIndex, A: a, B: lo}
		case p.isOp("("):
			p.next()
			var args []*SExpr
			for !p.isOp(")") {
				if len(args) == 1 && a.Kind == SIdent && (a.Name == "asType" || a.Name == "typeIs") {
					// the second argument is a type
					args = append(args, &SExpr{Kind: SIdent, Name: p.parseType(), Pos: p.cur().pos})
				} else {
					args = append(args, p.expr())
				}
				if !p.accept(",") {
					break
				}
			}
			p.expect(")")
			a = &SExpr{Kind: SCall, A: a, Args: args}
		case p.isOp("{") && (a.Kind == SIdent || a.Kind == SSel):
			// composite literal T{} or T{f: e}
			p.next()
			ts := a.String()
			lit := &SExpr{Kind: SLit, TypeS: ts}
			for !p.isOp("}") {
				if p.cur().k != "id" {
					p.fail("expected field name in literal")
				}
				f := p.next().s
				p.expect(":")
				lit.Fields = append(lit.Fields, f)
				lit.Args = append(lit.Args, p.expr())
				if !p.accept(",") {
					break
				}
			}
			p.expect("}")
			if len(lit.Fields) == 0 {
				lit.Kind = SZero
			}
			a = lit
		default:
			return a
		}
	}
}

func (p *sparser) primary() *SExpr {
	t := p.next()
	switch t.k {
	case "int":
		return &SExpr{Kind: SInt, Name: t.s, Pos: t.pos}
	case "str":
		return &SExpr{Kind: SStr, Name: t.s, Pos: t.pos}
	case "char":
		return &SExpr{Kind: SChar, Name: t.s, Pos: t.pos}
	case "id":
		switch t.s {
		case "true", "false":
			return &SExpr{Kind: SBool, Name: t.s}
		case "nil":
			return &SExpr{Kind: SNil}
		case "forall", "exists":
			p.p--
			return p.expr()
		case "old":
			p.expect("(")
			a := p.expr()
			p.expect(")")
			return &SExpr{Kind: SOld, A: a}
		}
		return &SExpr{Kind: SIdent, Name: t.s, Pos: t.pos}
	case "op":
		if t.s == "(" {
			e := p.expr()
			p.expect(")")
			return e
		}
		if t.s == "[" {
			// slice type conversion e.g. []byte(x) — parse as call on a type identifier
			p.expect("]")
			if p.cur().k != "id" {
				p.fail("expected element type")
			}
			return &SExpr{Kind: SIdent, Name: "[]" + p.next().s, Pos: t.pos}
		}
	}
	p.p--
	p.fail("unexpected token %q", t.s)
	return nil
}
