package main

import (
	"sort"
	"strings"
)

// Minimal s-expression reader used to infer quantifier patterns.

type sx struct {
	atom string
	kids []*sx
}

func parseSx(s string) *sx {
	pos := 0
	var rd func() *sx
	rd = func() *sx {
		for pos < len(s) && (s[pos] == ' ' || s[pos] == '\n' || s[pos] == '\t') {
			pos++
		}
		if pos >= len(s) {
			return nil
		}
		if s[pos] == '(' {
			pos++
			n := &sx{}
			for {
				for pos < len(s) && (s[pos] == ' ' || s[pos] == '\n' || s[pos] == '\t') {
					pos++
				}
				if pos >= len(s) {
					return n
				}
				if s[pos] == ')' {
					pos++
					return n
				}
				k := rd()
				if k == nil {
					return n
				}
				n.kids = append(n.kids, k)
			}
		}
		st := pos
		if s[pos] == '|' {
			pos++
			for pos < len(s) && s[pos] != '|' {
				pos++
			}
			pos++
		} else {
			for pos < len(s) && s[pos] != ' ' && s[pos] != ')' && s[pos] != '(' && s[pos] != '\n' && s[pos] != '\t' {
				pos++
			}
		}
		return &sx{atom: s[st:pos]}
	}
	return rd()
}

func (n *sx) String() string {
	if n.kids == nil && n.atom != "" {
		return n.atom
	}
	var parts []string
	for _, k := range n.kids {
		parts = append(parts, k.String())
	}
	return "(" + strings.Join(parts, " ") + ")"
}

var interpretedOps = map[string]bool{"+": true, "-": true, "*": true, "div": true, "mod": true, "<": true, "<=": true, ">": true, ">=": true,
	"=": true, "and": true, "or": true, "not": true, "=>": true, "ite": true, "forall": true, "exists": true, "!": true, "distinct": true, "let": true}

func (n *sx) head() string {
	if len(n.kids) > 0 && n.kids[0].kids == nil {
		return n.kids[0].atom
	}
	return ""
}

func (n *sx) containsInterpreted() bool {
	if n.kids == nil {
		return false
	}
	if interpretedOps[n.head()] {
		return true
	}
	for _, k := range n.kids {
		if k.containsInterpreted() {
			return true
		}
	}
	return false
}

func (n *sx) vars(bound map[string]bool, out map[string]bool) {
	if n.kids == nil {
		if bound[n.atom] {
			out[n.atom] = true
		}
		return
	}
	for _, k := range n.kids {
		k.vars(bound, out)
	}
}

// inferPatterns chooses trigger terms for a quantifier body: array reads and uninterpreted
// applications that mention bound variables and contain no interpreted operator.
func inferPatterns(body string, bnames []string) []string {
	root := parseSx(body)
	if root == nil {
		return nil
	}
	bound := map[string]bool{}
	for _, b := range bnames {
		bound[b] = true
	}
	type cand struct {
		text string
		vars map[string]bool
	}
	var cands []cand
	seen := map[string]bool{}
	var walk func(n *sx, shadow map[string]bool)
	walk = func(n *sx, shadow map[string]bool) {
		if n.kids == nil {
			return
		}
		h := n.head()
		if h == "forall" || h == "exists" {
			// nested quantifier: its bound names shadow nothing of ours (fresh names), just descend
		}
		if h != "" && !interpretedOps[h] && !strings.HasPrefix(h, "mk-") && h != "as" && !n.containsInterpreted() {
			vs := map[string]bool{}
			n.vars(bound, vs)
			if len(vs) > 0 {
				t := n.String()
				// avoid patterns that are just accessor chains on a bound var of datatype sort? they are fine.
				if !seen[t] {
					seen[t] = true
					cands = append(cands, cand{t, vs})
				}
				// still descend: smaller subterms may be better triggers, but the maximal term is the most specific; keep both
			}
		}
		for _, k := range n.kids {
			walk(k, shadow)
		}
	}
	walk(root, nil)
	if len(cands) == 0 {
		return nil
	}
	// prefer select-based candidates; keep only "minimal" candidates that cover vars:
	// drop a candidate if a strict subterm candidate covers the same vars (smaller triggers fire more often)
	var filtered []cand
	for i, c := range cands {
		dominated := false
		for j, d := range cands {
			if i != j && len(d.text) < len(c.text) && strings.Contains(c.text, d.text) && sameVars(c.vars, d.vars) {
				dominated = true
				break
			}
		}
		if !dominated {
			filtered = append(filtered, c)
		}
	}
	cands = filtered
	var pats []string
	var partial []cand
	for _, c := range cands {
		if len(c.vars) == len(bnames) {
			pats = append(pats, ":pattern ("+c.text+")")
		} else {
			partial = append(partial, c)
		}
	}
	if len(pats) == 0 && len(partial) > 0 {
		// build one multi-pattern greedily
		sort.Slice(partial, func(i, j int) bool { return len(partial[i].vars) > len(partial[j].vars) })
		covered := map[string]bool{}
		var terms []string
		for _, c := range partial {
			adds := false
			for v := range c.vars {
				if !covered[v] {
					adds = true
				}
			}
			if adds {
				terms = append(terms, c.text)
				for v := range c.vars {
					covered[v] = true
				}
			}
		}
		if len(covered) == len(bnames) {
			pats = append(pats, ":pattern ("+strings.Join(terms, " ")+")")
		}
	}
	if len(pats) > 6 {
		pats = pats[:6]
	}
	return pats
}

func sameVars(a, b map[string]bool) bool {
	if len(a) != len(b) {
		return false
	}
	for k := range a {
		if !b[k] {
			return false
		}
	}
	return true
}
