package main

import (
	"fmt"
)

// genLemma generates the obligations of a pure lemma: forall params :: requires ==> ensures.
func genLemma(g *Gen, c *Contract) (fg *FG, err error) {
	fg = newFG(g, nil, c)
	fg.name = c.Key
	fg.isLemma = true
	defer func() {
		if r := recover(); r != nil {
			if ge, ok := r.(genErr); ok {
				err = fmt.Errorf("%s: %s", c.Key, ge.msg)
				return
			}
			panic(r)
		}
	}()
	st := &State{heaps: map[string]string{}}
	fg.heapSort["$alloc"] = "Int"
	fg.alloc0 = fg.heap(st, "$alloc", "Int")
	fg.entrySt = st
	fg.R[0] = "true"
	env := &Env{fg: fg, vars: map[string]Val{}, st: st, old: st}
	if p := g.pkgByName(c.Pkg); p != nil {
		env.pkg = p
	}
	for i, p := range c.Params {
		t, srt := env.resolveType(c.ParamTys[i])
		if t != nil {
			srt = fg.sorts.sortOf(t)
		}
		n := "p." + sanitize(p)
		fg.declare(n, srt)
		v := Val{T: n, Ty: t, Sort: srt}
		env.vars[p] = v
		if t != nil {
			fg.assumeTyped(v, nil)
		}
	}
	for _, r := range c.Requires {
		fg.assume(env.tr(r.E).T)
	}
	for _, u := range c.Uses {
		// use: an instance of another lemma (its requires ==> its ensures); nothing else may be assumed
		if u.E.Kind != SCall || u.E.A.Kind != SIdent || g.ct.C["lemma."+u.E.A.Name] == nil {
			fg.fail("use: %s is not a lemma application", u.Src)
		}
		fg.assume(env.tr(u.E).T)
	}
	fg.cover("cover:requires", "true")
	// assert: proof steps, each proved from what precedes it and then available to what follows
	for k, a := range c.Asserts {
		t := env.tr(a.E)
		fg.oblig("lemma", fmt.Sprintf("lemma-step:%s", clauseName(a, k)), a.Tag, "true", t.T, a.Src, fmt.Sprintf("%s:%d", a.File, a.Line))
	}
	for k, q := range c.Ensures {
		t := env.tr(q.E)
		fg.oblig("lemma", fmt.Sprintf("lemma:%s", clauseName(q, k)), q.Tag, "true", t.T, q.Src, fmt.Sprintf("%s:%d", q.File, q.Line))
	}
	return fg, nil
}
