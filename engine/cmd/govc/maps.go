package main

import (
	"strings"
	"sort"
	"fmt"
	"go/types"

	"golang.org/x/tools/go/ssa"
)

// Maps: reference r; contents MV[r] : K -> V, presence MP[r] : K -> Bool, cardinality ML[r].

func (fg *FG) mapFamilies(m *types.Map) (string, string) {
	k := shortTypeName(m.Key())
	v := shortTypeName(m.Elem())
	ks := fg.sorts.sortOf(m.Key())
	vs := fg.sorts.sortOf(m.Elem())
	mv := "MV_" + k + "_" + v
	mp := "MP_" + k + "_" + v
	ml := "ML_" + k + "_" + v
	fg.heapSort[mv] = fmt.Sprintf("(Array Int (Array %s %s))", ks, vs)
	fg.heapSort[mp] = fmt.Sprintf("(Array Int (Array %s Bool))", ks)
	fg.heapSort[ml] = "(Array Int Int)"
	return mv, ml
}

func mapPresence(mv string) string { return "MP_" + mv[3:] }

func (fg *FG) makeMap(st *State, x *ssa.MakeMap) {
	m := types.Unalias(x.Type()).Underlying().(*types.Map)
	mv, ml := fg.mapFamilies(m)
	mp := mapPresence(mv)
	r := fg.allocRef(st)
	fg.assume(fmt.Sprintf("(> %s 0)", r))
	ks := fg.sorts.sortOf(m.Key())
	fg.setHeap(st, mp, fmt.Sprintf("(store %s %s ((as const (Array %s Bool)) false))", fg.heap(st, mp, ""), r, ks))
	fg.setHeap(st, ml, fmt.Sprintf("(store %s %s 0)", fg.heap(st, ml, ""), r))
	_ = mv
	n := fg.define(fg.valName(x), "Int", r)
	fg.vals[x] = Val{T: n, Ty: x.Type()}
}

func (fg *FG) lookup(st *State, x *ssa.Lookup) {
	a := fg.val(x.X)
	k := fg.val(x.Index)
	switch u := types.Unalias(x.X.Type()).Underlying().(type) {
	case *types.Map:
		mv, _ := fg.mapFamilies(u)
		mp := mapPresence(mv)
		pres := fmt.Sprintf("(and (not (= %s 0)) (select (select %s %s) %s))", a.T, fg.heap(st, mp, ""), a.T, k.T)
		val := fmt.Sprintf("(select (select %s %s) %s)", fg.heap(st, mv, ""), a.T, k.T)
		z := fg.sorts.zero(u.Elem())
		if x.CommaOk {
			okn := fg.define("ok", "Bool", pres)
			vn := fg.define("mv", fg.sorts.sortOf(u.Elem()), fmt.Sprintf("(ite %s %s %s)", okn, val, z))
			vv := Val{T: vn, Ty: u.Elem()}
			fg.assumeTyped(vv, st)
			fg.vals[x] = Val{Tuple: []Val{vv, {T: okn, Ty: types.Typ[types.Bool]}}, Ty: x.Type()}
			return
		}
		vv := fg.bind(x, fmt.Sprintf("(ite %s %s %s)", pres, val, z))
		fg.assumeTyped(vv, st)
	case *types.Basic:
		fg.safe("index", x, fmt.Sprintf("(and (<= 0 %s) (< %s (strlen %s)))", k.T, k.T, a.T))
		fg.bind(x, fmt.Sprintf("(strat %s %s)", a.T, k.T))
	default:
		fg.fail("Lookup on %v", x.X.Type())
	}
}

func (fg *FG) mapUpdate(st *State, x *ssa.MapUpdate) {
	a := fg.val(x.Map)
	k := fg.val(x.Key)
	v := fg.val(x.Value)
	u := types.Unalias(x.Map.Type()).Underlying().(*types.Map)
	mv, ml := fg.mapFamilies(u)
	mp := mapPresence(mv)
	fg.safe("nilmap", x, fmt.Sprintf("(not (= %s 0))", a.T))
	fg.frameCheck(st, &Loc{Kind: LCell, Heap: mv, Ref: a.T}, x)
	hv := fg.heap(st, mv, "")
	hp := fg.heap(st, mp, "")
	hl := fg.heap(st, ml, "")
	was := fmt.Sprintf("(select (select %s %s) %s)", hp, a.T, k.T)
	fg.setHeap(st, ml, fmt.Sprintf("(store %s %s (+ (select %s %s) (ite %s 0 1)))", hl, a.T, hl, a.T, was))
	fg.setHeap(st, mv, fmt.Sprintf("(store %s %s (store (select %s %s) %s %s))", hv, a.T, hv, a.T, k.T, v.T))
	fg.setHeap(st, mp, fmt.Sprintf("(store %s %s (store (select %s %s) %s true))", hp, a.T, hp, a.T, k.T))
}

func (fg *FG) mapDelete(st *State, a, k Val, in ssa.Instruction) {
	u := types.Unalias(a.Ty).Underlying().(*types.Map)
	mv, ml := fg.mapFamilies(u)
	mp := mapPresence(mv)
	fg.frameCheck(st, &Loc{Kind: LCell, Heap: mv, Ref: a.T}, in)
	hp := fg.heap(st, mp, "")
	hl := fg.heap(st, ml, "")
	was := fmt.Sprintf("(select (select %s %s) %s)", hp, a.T, k.T)
	fg.setHeap(st, ml, fmt.Sprintf("(store %s %s (- (select %s %s) (ite %s 1 0)))", hl, a.T, hl, a.T, was))
	fg.setHeap(st, mp, fmt.Sprintf("(store %s %s (store (select %s %s) %s false))", hp, a.T, hp, a.T, k.T))
}

// Range over a map: an iterator object with a ghost set of keys already produced.
func (fg *FG) rangeInstr(st *State, x *ssa.Range) {
	u, ok := types.Unalias(x.X.Type()).Underlying().(*types.Map)
	if !ok {
		fg.fail("range over %v is outside the subset", x.X.Type())
	}
	a := fg.val(x.X)
	fam := "IT_seen_" + shortTypeName(u.Key())
	fg.heapSort[fam] = fmt.Sprintf("(Array Int (Array %s Bool))", fg.sorts.sortOf(u.Key()))
	r := fg.allocRef(st)
	fg.setHeap(st, fam, fmt.Sprintf("(store %s %s ((as const (Array %s Bool)) false))", fg.heap(st, fam, ""), r, fg.sorts.sortOf(u.Key())))
	n := fg.define(fg.valName(x), "Int", r)
	fg.vals[x] = Val{T: n, Ty: x.Type(), Sort: a.T}
	fg.g.rangeMaps[x] = a
	fg.ranges = append(fg.ranges, x)
}

func (fg *FG) nextInstr(st *State, x *ssa.Next) {
	if x.IsString {
		fg.fail("range over string is outside the subset")
	}
	rng := x.Iter.(*ssa.Range)
	u := types.Unalias(rng.X.Type()).Underlying().(*types.Map)
	it := fg.val(x.Iter)
	m := fg.g.rangeMaps[rng]
	mv, _ := fg.mapFamilies(u)
	mp := mapPresence(mv)
	fam := "IT_seen_" + shortTypeName(u.Key())
	ks := fg.sorts.sortOf(u.Key())
	ok := fg.fresh("next.ok", "Bool")
	k := fg.fresh("next.k", ks)
	kv := Val{T: k, Ty: u.Key()}
	fg.assumeTyped(kv, st)
	seen := fmt.Sprintf("(select %s %s)", fg.heap(st, fam, ""), it.T)
	pres := fmt.Sprintf("(select %s %s)", fg.heap(st, mp, ""), m.T)
	g := fg.guard()
	// ok: a present key not yet seen; !ok: every present key has been seen
	fg.assume(fmt.Sprintf("(=> (and %s %s) (and (not (= %s 0)) (select %s %s) (not (select %s %s))))", g, ok, m.T, pres, k, seen, k))
	fg.nfresh++
	q := fmt.Sprintf("q.k!%d", fg.nfresh)
	fg.assume(fmt.Sprintf("(=> (and %s (not %s) (not (= %s 0))) (forall ((%s %s)) (! (=> (select %s %s) (select %s %s)) :pattern ((select %s %s)))))", g, ok, m.T, q, ks, pres, q, seen, q, pres, q))
	v := fg.define("next.v", fg.sorts.sortOf(u.Elem()), fmt.Sprintf("(select (select %s %s) %s)", fg.heap(st, mv, ""), m.T, k))
	vv := Val{T: v, Ty: u.Elem()}
	fg.assumeTyped(vv, st)
	h := fg.heap(st, fam, "")
	fg.setHeap(st, fam, fmt.Sprintf("(ite %s (store %s %s (store (select %s %s) %s true)) %s)", ok, h, it.T, h, it.T, k, h))
	fg.vals[x] = Val{Tuple: []Val{{T: ok, Ty: types.Typ[types.Bool]}, kv, vv}, Ty: x.Type()}
}

// ---------- channels (ghost state: length, capacity, closed) ----------

func (fg *FG) chanHeaps(st *State) (string, string, string) {
	fg.heapSort["CH_len"] = "(Array Int Int)"
	fg.heapSort["CH_cap"] = "(Array Int Int)"
	fg.heapSort["CH_closed"] = "(Array Int Bool)"
	return fg.heap(st, "CH_len", ""), fg.heap(st, "CH_cap", ""), fg.heap(st, "CH_closed", "")
}

func (fg *FG) makeChan(st *State, x *ssa.MakeChan) {
	sz := fg.val(x.Size)
	r := fg.allocRef(st)
	fg.assume(fmt.Sprintf("(> %s 0)", r))
	l, c, cl := fg.chanHeaps(st)
	fg.setHeap(st, "CH_len", fmt.Sprintf("(store %s %s 0)", l, r))
	fg.setHeap(st, "CH_cap", fmt.Sprintf("(store %s %s %s)", c, r, sz.T))
	fg.setHeap(st, "CH_closed", fmt.Sprintf("(store %s %s false)", cl, r))
	n := fg.define(fg.valName(x), "Int", r)
	fg.vals[x] = Val{T: n, Ty: x.Type()}
}

// send: never on a nil or closed channel; with the contract flag "nonblocking" the buffer must have room.
// chanValueFacts applies the declared sender-side contract of a channel element type.
func (fg *FG) chanValueFacts(st *State, v Val, in ssa.Instruction, sending bool) {
	if v.Ty == nil {
		return
	}
	key := types.TypeString(v.Ty, func(p *types.Package) string { return p.Name() })
	for _, cv := range fg.g.ct.ChanValues[key] {
		env := &Env{fg: fg, vars: map[string]Val{cv.Var: v}, st: st, old: fg.entrySt}
		if p := fg.g.pkgByName(cv.Pkg); p != nil {
			env.pkg = p
		}
		if sending && cv.Ensure != nil {
			t := env.tr(cv.Ensure.E)
			fg.oblig("pre", fmt.Sprintf("send:%s@%s", sanitize(key), fg.instrLabel(in)), cv.Ensure.Tag, fg.guard(), t.T, cv.Ensure.Src, fg.posOf(instrPos(in)))
		}
		if !sending && cv.Assume != nil {
			t := env.tr(cv.Assume.E)
			fg.assume(fmt.Sprintf("(=> %s %s)", fg.guard(), t.T))
			fg.g.noteAssumption("values received from channels of " + key + ": " + cv.Assume.Src)
		}
	}
}

// beforeSend checks the contract's "before send assert" steps: the value about to be sent is `sent`,
// the channel `sentTo`; parameters and locals of the sending function are in scope.
func (fg *FG) beforeSend(st *State, ch, v Val, in ssa.Instruction) {
	if fg.c == nil || fg.c.Before == nil || len(fg.c.Before["send"]) == 0 {
		return
	}
	fg.beforeHit["send"] = true
	env := &Env{fg: fg, vars: map[string]Val{"sent": v, "sentTo": ch}, st: st, old: fg.entrySt}
	if p := fg.g.pkgByName(fg.c.Pkg); p != nil {
		env.pkg = p
	}
	for n, pv := range fg.params {
		if _, clash := env.vars[n]; !clash {
			env.vars[n] = pv
		}
	}
	if in != nil && in.Block() != nil {
		env.local = fg.localResolverAt(in.Block(), in.Block(), st)
	}
	for k, sc := range fg.c.Before["send"] {
		t := env.tr(sc.E)
		fg.oblig("assert", fmt.Sprintf("assert:before:send#%s@%s", clauseName(sc, k), fg.instrLabel(in)), sc.Tag, fg.guard(), t.T, sc.Src, fmt.Sprintf("%s:%d", sc.File, sc.Line))
	}
}

func (fg *FG) send(st *State, x *ssa.Send) {
	ch := fg.val(x.Chan)
	fg.chanValueFacts(st, fg.val(x.X), x, true)
	fg.beforeSend(st, ch, fg.val(x.X), x)
	l, c, cl := fg.chanHeaps(st)
	fg.safe("sendclosed", x, fmt.Sprintf("(and (not (= %s 0)) (not (select %s %s)))", ch.T, cl, ch.T))
	if fg.g.nonblockingFn(fg.name) {
		// rendezvous channels (capacity 0 by construction, e.g. a requester waiting for its answer) are excluded:
		// the contract names the element types whose sends must never block
		if fg.c == nil || fg.c.NonblockingTypes == nil || fg.c.NonblockingTypes[types.TypeString(x.X.Type(), func(p *types.Package) string { return p.Name() })] {
			fg.safe("nonblocking", x, fmt.Sprintf("(< (select %s %s) (select %s %s))", l, ch.T, c, ch.T))
		}
	}
	fg.frameCheck(st, &Loc{Kind: LCell, Heap: "CH_len", Ref: ch.T}, x)
	fg.setHeap(st, "CH_len", fmt.Sprintf("(store %s %s (+ (select %s %s) 1))", l, ch.T, l, ch.T))
}

func (fg *FG) closeChan(st *State, ch Val, in ssa.Instruction) {
	_, _, cl := fg.chanHeaps(st)
	fg.safe("closeclosed", in, fmt.Sprintf("(and (not (= %s 0)) (not (select %s %s)))", ch.T, cl, ch.T))
	fg.frameCheck(st, &Loc{Kind: LCell, Heap: "CH_closed", Ref: ch.T}, in)
	fg.setHeap(st, "CH_closed", fmt.Sprintf("(store %s %s true)", cl, ch.T))
}

func (fg *FG) recv(st *State, x *ssa.UnOp) {
	// a received value is arbitrary (sender-side contracts are not tracked), the buffer shrinks if it was non-empty
	ch := fg.val(x.X)
	_ = ch
	if x.CommaOk {
		t := x.Type().(*types.Tuple)
		v := Val{T: fg.fresh("recv", fg.sorts.sortOf(t.At(0).Type())), Ty: t.At(0).Type()}
		fg.assumeTyped(v, st)
		ok := fg.fresh("recv.ok", "Bool")
		fg.vals[x] = Val{Tuple: []Val{v, {T: ok, Ty: types.Typ[types.Bool]}}, Ty: x.Type()}
		return
	}
	v := fg.bindFresh(x)
	fg.assumeTyped(v, st)
	fg.chanValueFacts(st, v, x, false)
}

func (fg *FG) selectInstr(st *State, x *ssa.Select) {
	// nondeterministic choice of a ready case; received values are arbitrary
	t := x.Type().(*types.Tuple)
	idx := fg.fresh("sel.idx", "Int")
	n := len(x.States)
	lo := 0
	if !x.Blocking {
		lo = -1
	}
	fg.assume(fmt.Sprintf("(and (<= %d %s) (< %s %d))", lo, idx, idx, n))
	res := []Val{{T: idx, Ty: types.Typ[types.Int]}, {T: fg.fresh("sel.ok", "Bool"), Ty: types.Typ[types.Bool]}}
	for i := 2; i < t.Len(); i++ {
		v := Val{T: fg.fresh("sel.recv", fg.sorts.sortOf(t.At(i).Type())), Ty: t.At(i).Type()}
		fg.assumeTyped(v, st)
		// the sender-side contract holds for the value of the chosen case
		saved := fg.R[fg.curBlock]
		fg.R[fg.curBlock] = fmt.Sprintf("(and %s (= %s %d))", saved, idx, i-2)
		fg.chanValueFacts(st, v, x, false)
		fg.R[fg.curBlock] = saved
		res = append(res, v)
	}
	for i, s := range x.States {
		ch := fg.val(s.Chan)
		if s.Dir != types.SendOnly {
			continue
		}
		// a send case: when it is the chosen one the channel is not nil (a nil channel is never ready),
		// must not be closed (the send would panic), the sender-side contracts hold for the value,
		// and the buffer grows
		saved := fg.R[fg.curBlock]
		chosen := fmt.Sprintf("(= %s %d)", idx, i)
		fg.assume(fmt.Sprintf("(=> %s (not (= %s 0)))", chosen, ch.T))
		fg.R[fg.curBlock] = fmt.Sprintf("(and %s %s)", saved, chosen)
		v := fg.val(s.Send)
		fg.chanValueFacts(st, v, x, true)
		fg.beforeSend(st, ch, v, x)
		l, _, cl := fg.chanHeaps(st)
		fg.safe("sendclosed", x, fmt.Sprintf("(not (select %s %s))", cl, ch.T))
		fg.frameCheck(st, &Loc{Kind: LCell, Heap: "CH_len", Ref: ch.T}, x)
		fg.R[fg.curBlock] = saved
		fg.setHeap(st, "CH_len", fmt.Sprintf("(ite %s (store %s %s (+ (select %s %s) 1)) %s)", chosen, l, ch.T, l, ch.T, l))
	}
	fg.vals[x] = Val{Tuple: res, Ty: x.Type()}
	// engine-maintained volatile ghost world.lastSel: the channel of the case this select fired on
	// (0 for the default case); every call forgets it (see forgetLastSel)
	if fg.lastSelDeclared() {
		term := "0"
		for i := len(x.States) - 1; i >= 0; i-- {
			term = fmt.Sprintf("(ite (= %s %d) %s %s)", idx, i, fg.val(x.States[i].Chan).T, term)
		}
		fg.declare("$world", "Int")
		if !fg.declSet["ax.world"] {
			fg.declSet["ax.world"] = true
			fg.decls = append(fg.decls, "(assert (> $world 0))")
		}
		fg.heapSort["G_any_lastSel"] = "(Array Int Int)"
		cur := fg.heap(st, "G_any_lastSel", "")
		fg.guardLoopWrite("G_any_lastSel")
		fg.setHeap(st, "G_any_lastSel", fmt.Sprintf("(store %s $world %s)", cur, term))
	}
}

func (fg *FG) lastSelDeclared() bool {
	_, ok := fg.g.ct.GhostFields["any.lastSel"]
	return ok
}

// forgetLastSel: a callee may run selects of its own - and may change any volatile ghost.
func (fg *FG) forgetLastSel(st *State, c *Contract) {
	if fg.lastSelDeclared() {
		fg.heapSort["G_any_lastSel"] = "(Array Int Int)"
		fg.havocHeap(st, "G_any_lastSel")
	}
	for _, fam := range fg.volatileFamilies() {
		// a volatile ghost exists only in contracts: an ASSUMED (external, leaf) contract that does not
		// name it cannot change it; a verified in-repo callee may reach a writer without saying so
		if c != nil && c.Assumed {
			named := false
			for _, m := range c.Modifies {
				if strings.Contains(m.Src, "."+strings.TrimPrefix(fam, "G_any_")) {
					named = true
				}
			}
			if !named {
				continue
			}
		}
		fg.havocHeap(st, fam)
	}
}

// volatileFamilies: the heap families of the declared volatile ghost fields (sorts registered).
func (fg *FG) volatileFamilies() []string {
	var out []string
	for name := range fg.g.ct.Volatile {
		fam := "G_any_" + sanitize(name)
		if _, ok := fg.heapSort[fam]; !ok {
			// a volatile ghost whose type belongs to a package that is not part of this run cannot be
			// mentioned by any contract of this run: it is simply not there
			srt, ok := func() (srt string, ok bool) {
				defer func() {
					if r := recover(); r != nil {
						if _, isGen := r.(genErr); !isGen {
							panic(r)
						}
						ok = false
					}
				}()
				env := &Env{fg: fg, vars: map[string]Val{}, st: &State{heaps: map[string]string{}}}
				t, s := env.resolveType(fg.g.ct.GhostFields["any."+name])
				if t != nil {
					s = fg.sorts.sortOf(t)
				}
				return s, true
			}()
			if !ok {
				continue
			}
			fg.heapSort[fam] = "(Array Int " + srt + ")"
		}
		out = append(out, fam)
	}
	sort.Strings(out)
	return out
}
