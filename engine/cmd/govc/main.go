package main

import (
	"fmt"
	"os"

	"golang.org/x/tools/go/packages"
	"golang.org/x/tools/go/ssa"
	"golang.org/x/tools/go/ssa/ssautil"
)

func main() {
	cfg := &packages.Config{Mode: packages.LoadSyntax, Dir: "/repo", BuildFlags: []string{"-tags=verif", "-modfile=/verif/out/go.mod"}, Env: append(os.Environ(), "GOFLAGS=-mod=mod", "GOPROXY=off", "GOSUMDB=off", "GOTOOLCHAIN=local")}
	pkgs, err := packages.Load(cfg, os.Args[1])
	if err != nil {
		panic(err)
	}
	prog, spkgs := ssautil.Packages(pkgs, ssa.InstantiateGenerics|ssa.GlobalDebug)
	_ = prog
	for _, p := range spkgs {
		p.Build()
		for _, m := range p.Members {
			if f, ok := m.(*ssa.Function); ok && (len(os.Args) < 3 || f.Name() == os.Args[2]) {
				f.WriteTo(os.Stdout)
				for _, af := range f.AnonFuncs {
					af.WriteTo(os.Stdout)
				}
			}
		}
	}
	fmt.Println("ok")
}
