package main

import (
	"flag"
	"fmt"
	"os"
	"path/filepath"
	"sort"
	"strings"
	"time"
)

func usage() {
	fmt.Fprintln(os.Stderr, `govc - contract-based deductive verification of /repo (go/ssa -> VCs -> SMT)
  govc check --property Cxx [--tier quick|thorough]
  govc verify --pkg <pattern,...> --fn <key,...> [-v]
  govc ssa <pkg pattern> [function name]
  govc list [--property Cxx]
  govc selftest`)
	os.Exit(2)
}

func main() {
	if len(os.Args) < 2 {
		usage()
	}
	switch os.Args[1] {
	case "ssa":
		cmdSSA(os.Args[2:])
	case "verify":
		cmdVerify(os.Args[2:])
	case "check":
		cmdCheck(os.Args[2:])
	case "list":
		cmdList(os.Args[2:])
	case "selftest":
		cmdSelftest(os.Args[2:])
	case "replay":
		cmdReplay(os.Args[2:])
	default:
		usage()
	}
}

func cmdSSA(args []string) {
	if len(args) < 1 {
		usage()
	}
	g, err := loadGen([]string{args[0]}, nil)
	if err != nil {
		fmt.Fprintln(os.Stderr, err)
		os.Exit(2)
	}
	for _, k := range g.sortedFnKeys() {
		f := g.fnIndex[k]
		if len(args) > 1 && !strings.Contains(k, args[1]) {
			continue
		}
		if f.Blocks == nil {
			continue
		}
		fmt.Printf("### key: %s\n", k)
		f.WriteTo(os.Stdout)
	}
}

type fnResult struct {
	Key   string
	Err   error
	Soft  []string // tool errors that do not prevent the other obligations from being generated
	Obs   []*Oblig
	FG    *FG
}

// verifyFns generates and discharges the obligations of the listed functions.
func verifyFns(g *Gen, keys []string, outDir, tier string, seed int) []*fnResult {
	var results []*fnResult
	var all []*Oblig
	for _, k := range keys {
		r := &fnResult{Key: k}
		results = append(results, r)
		if strings.HasPrefix(k, "refines:") {
			var found *Refine
			for i := range g.ct.Refines {
				rf := &g.ct.Refines[i]
				if "refines:"+rf.Iface+":"+rf.Impl == k {
					found = rf
				}
			}
			if found == nil {
				r.Err = fmt.Errorf("%s: no such refines declaration", k)
				continue
			}
			fg, err := genRefine(g, *found)
			r.FG = fg
			if err != nil {
				r.Err = err
				continue
			}
			r.Obs = fg.obligations()
			all = append(all, r.Obs...)
			continue
		}
		c := g.ct.C[k]
		if c == nil {
			r.Err = fmt.Errorf("%s: no contract found", k)
			continue
		}
		if false {
		}
		if c != nil && c.Kind == "lemma" {
			fg, err := genLemma(g, c)
			r.FG = fg
			if err != nil {
				r.Err = err
				continue
			}
			r.Obs = fg.obligations()
			all = append(all, r.Obs...)
			continue
		}
		// "KEY#name": a secondary contract of function KEY - verified against the body, never used at
		// call sites (callers see the contract under the plain key)
		fk := k
		if i := strings.Index(fk, "#"); i > 0 {
			fk = fk[:i]
		}
		fn := g.fnIndex[fk]
		if fn == nil {
			r.Err = fmt.Errorf("%s: contract does not bind to any function in the loaded packages", k)
			continue
		}
		if c.Assumed {
			r.Err = fmt.Errorf("%s: contract is marked assumed, cannot be verified", k)
			continue
		}
		fg := newFG(g, fn, c)
		r.FG = fg
		if err := fg.run(); err != nil {
			r.Err = err
			continue
		}
		r.Obs = fg.obligations()
		r.Soft = fg.softErrs
		all = append(all, r.Obs...)
	}
	dischargeAll(all, outDir, tier, seed)
	return results
}

func (fg *FG) obligations() []*Oblig {
	var out []*Oblig
	for _, it := range fg.items {
		if it.kind == itOblig {
			out = append(out, it.ob)
		}
	}
	return out
}

func (o *Oblig) ok() bool {
	if o.Cover {
		return o.Result != "unsat"
	}
	return o.Result == "unsat"
}

func cmdVerify(args []string) {
	fs := flag.NewFlagSet("verify", flag.ExitOnError)
	pkg := fs.String("pkg", "", "package patterns (comma separated)")
	fn := fs.String("fn", "", "function keys (comma separated); empty = all functions with contracts in the packages")
	verbose := fs.Bool("v", false, "verbose")
	tier := fs.String("tier", "quick", "tier")
	model := fs.Bool("model", false, "print models of failed obligations")
	fs.Parse(args)
	t0 := time.Now()
	g, err := loadGen(strings.Split(*pkg, ","), nil)
	if err != nil {
		fmt.Fprintln(os.Stderr, err)
		os.Exit(2)
	}
	var keys []string
	if *fn != "" {
		keys = strings.Split(*fn, ",")
	} else {
		for k, c := range g.ct.C {
			fk := k
			if i := strings.Index(fk, "#"); i > 0 {
				fk = fk[:i]
			}
			if c.Kind == "func" && !c.Assumed && g.fnIndex[fk] != nil {
				keys = append(keys, k)
			}
			if c.Kind == "lemma" {
				for _, p := range g.pkgs {
					if len(p.GoFiles) > 0 && filepath.Dir(p.GoFiles[0]) == filepath.Dir(c.File) {
						keys = append(keys, k)
					}
				}
			}
		}
		sort.Strings(keys)
	}
	fmt.Printf("loaded in %.1fs\n", time.Since(t0).Seconds())
	outDir := filepath.Join(outRoot, "smt", "dev")
	os.RemoveAll(outDir)
	res := verifyFns(g, keys, outDir, *tier, 0)
	bad := 0
	for _, r := range res {
		if r.Err != nil {
			fmt.Printf("ERROR %v\n", r.Err)
			bad++
			continue
		}
		for _, se := range r.Soft {
			fmt.Printf("ERROR %s: %s\n", r.Key, se)
			bad++
		}
		nok := 0
		for _, o := range r.Obs {
			if o.ok() {
				nok++
			}
		}
		fmt.Printf("%-50s %d/%d obligations\n", r.Key, nok, len(r.Obs))
		for _, o := range r.Obs {
			if !o.ok() || *verbose {
				fmt.Printf("   %-8s %-60s %s %.2fs  %s\n", o.Result, o.Name, o.Solver, o.TimeS, o.Src)
				if !o.ok() {
					bad++
					fmt.Printf("      file: %s\n", o.File)
					if *model {
						fmt.Println(getModel(o, 20))
					}
				}
			}
		}
	}
	fmt.Printf("total %.1fs, %d problems\n", time.Since(t0).Seconds(), bad)
	if bad > 0 {
		os.Exit(1)
	}
}
