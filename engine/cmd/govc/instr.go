package main

import (
	"fmt"
	"go/constant"
	"go/token"
	"go/types"
	"strings"

	"golang.org/x/tools/go/ssa"
)

func (fg *FG) valName(v ssa.Value) string {
	return "v." + fg.namePrefix + sanitize(v.Name())
}

// val returns the translated value of an SSA value.
func (fg *FG) val(v ssa.Value) Val {
	if x, ok := fg.vals[v]; ok {
		return x
	}
	switch c := v.(type) {
	case *ssa.Const:
		return fg.constVal(c)
	case *ssa.Global:
		t := c.Type().(*types.Pointer).Elem()
		pkgName := ""
		if c.Pkg != nil {
			pkgName = c.Pkg.Pkg.Name()
		}
		g := fg.globalConst(pkgName, c.Name(), t)
		return Val{Ty: c.Type(), Loc: &Loc{Kind: LGlobal, Ref: g, Ty: t}}
	case *ssa.Function:
		key := fg.g.keyOf(c)
		x := Val{T: fg.funcConst(key), Ty: c.Type(), Clo: &closureInfo{fn: c}}
		return x
	case *ssa.Builtin:
		return Val{T: "0", Ty: c.Type()}
	}
	fg.fail("value %s (%T) used before definition", v.Name(), v)
	return Val{}
}

func (fg *FG) constVal(c *ssa.Const) Val {
	t := c.Type()
	if c.Value == nil {
		// zero value / nil
		if tp, ok := t.(*types.TypeParam); ok {
			return Val{T: fg.sorts.zero(tp), Ty: t}
		}
		return Val{T: fg.sorts.zero(t), Ty: t}
	}
	switch c.Value.Kind() {
	case constant.Int:
		s := c.Value.ExactString()
		if strings.HasPrefix(s, "-") {
			s = "(- " + s[1:] + ")"
		}
		return Val{T: s, Ty: t}
	case constant.Bool:
		if constant.BoolVal(c.Value) {
			return Val{T: "true", Ty: t}
		}
		return Val{T: "false", Ty: t}
	case constant.String:
		return Val{T: fg.strLit(constant.StringVal(c.Value)), Ty: t}
	case constant.Float:
		if b, ok := t.Underlying().(*types.Basic); ok && b.Info()&types.IsInteger != 0 {
			if i, ok2 := constant.Int64Val(constant.ToInt(c.Value)); ok2 {
				return Val{T: fmt.Sprint(i), Ty: t}
			}
		}
		f, _ := constant.Float64Val(c.Value)
		return Val{T: fmt.Sprintf("%f", f), Ty: t}
	}
	fg.fail("unsupported constant %v", c)
	return Val{}
}

func (fg *FG) setVal(v ssa.Value, x Val) {
	fg.vals[v] = x
}

// bindTerm names the term of an instruction value.
func (fg *FG) bind(v ssa.Value, term string) Val {
	srt := fg.sorts.sortOf(v.Type())
	n := fg.valName(v)
	fg.declare(n, srt)
	fg.items = append(fg.items, item{kind: itDef, text: fmt.Sprintf("(assert (= %s %s))", n, term)})
	x := Val{T: n, Ty: v.Type()}
	fg.vals[v] = x
	return x
}

func (fg *FG) bindFresh(v ssa.Value) Val {
	srt := fg.sorts.sortOf(v.Type())
	n := fg.valName(v)
	fg.declare(n, srt)
	x := Val{T: n, Ty: v.Type()}
	fg.vals[v] = x
	fg.assumeTyped(x, nil)
	return x
}

// assumeTyped adds the range / allocation facts of a value of its type.
func (fg *FG) assumeTyped(x Val, st *State) {
	if x.Ty == nil {
		return
	}
	alloc := ""
	if st != nil {
		alloc = fg.heap(st, "$alloc", "Int")
	}
	if f := fg.wfTerm(x.Ty, x.T, 0, alloc); f != "" {
		fg.assume(f)
	}
}

func (fg *FG) guard() string { return fg.R[fg.curBlock] }

func (fg *FG) safe(kind string, in ssa.Instruction, goal string) {
	if fg.c != nil && fg.c.MayPanic && kind != "uwrap" {
		// a function declared maypanic: the operation is not shown safe, but execution only continues past
		// it when it did not panic - what follows may rely on that (partial correctness)
		fg.assume(fmt.Sprintf("(=> %s %s)", fg.guard(), goal))
		return
	}
	name := fmt.Sprintf("safe:%s@%s", kind, fg.instrLabel(in))
	fg.oblig("safe", name, "", fg.guard(), goal, instrText(in), fg.posOf(instrPos(in)))
}

func instrPos(in ssa.Instruction) token.Pos {
	if in == nil {
		return token.NoPos
	}
	if p := in.Pos(); p.IsValid() {
		return p
	}
	// fall back to any operand position
	for _, op := range in.Operands(nil) {
		if *op != nil {
			if p := (*op).Pos(); p.IsValid() {
				return p
			}
		}
	}
	return token.NoPos
}

func instrText(in ssa.Instruction) string {
	if in == nil {
		return ""
	}
	if v, ok := in.(ssa.Value); ok {
		return v.Name() + " = " + in.String()
	}
	return in.String()
}

func (fg *FG) instrLabel(in ssa.Instruction) string {
	if in == nil {
		return "entry"
	}
	// stable-ish label: block.index-in-block plus mnemonic
	b := in.Block()
	for i, x := range b.Instrs {
		if x == in {
			pos := fg.g.fset.Position(instrPos(in))
			return fmt.Sprintf("b%d.%d:L%d", b.Index, i, pos.Line)
		}
	}
	return "?"
}

func (fg *FG) instr(st *State, in ssa.Instruction) {
	fg.curInstr = in
	switch x := in.(type) {
	case *ssa.DebugRef:
		fg.debugRefs = append(fg.debugRefs, x)
	case *ssa.Alloc:
		fg.alloc(st, x)
	case *ssa.FieldAddr:
		p := fg.val(x.X)
		pt := types.Unalias(x.X.Type()).Underlying().(*types.Pointer)
		s, _ := structOf(pt.Elem())
		base := fg.locOf(p)
		if base.Kind == LObj {
			fg.safe("nil", in, fmt.Sprintf("(not (= %s 0))", base.Ref))
		}
		l := fg.fieldLoc(base, pt.Elem(), s, x.Field)
		fg.vals[x] = Val{Ty: x.Type(), Loc: l}
	case *ssa.IndexAddr:
		fg.indexAddr(st, x)
	case *ssa.Field:
		a := fg.val(x.X)
		s, _ := structOf(x.X.Type())
		fg.bind(x, fmt.Sprintf("(%s %s)", fg.sorts.fieldAcc(fg.sorts.sortOf(x.X.Type()), s, x.Field), a.T))
	case *ssa.Index:
		a := fg.val(x.X)
		i := fg.val(x.Index)
		switch u := types.Unalias(x.X.Type()).Underlying().(type) {
		case *types.Array:
			fg.safe("index", in, fmt.Sprintf("(and (<= 0 %s) (< %s %d))", i.T, i.T, u.Len()))
			fg.bind(x, fmt.Sprintf("(select %s %s)", a.T, i.T))
		case *types.Basic:
			fg.safe("index", in, fmt.Sprintf("(and (<= 0 %s) (< %s (strlen %s)))", i.T, i.T, a.T))
			fg.bind(x, fmt.Sprintf("(strat %s %s)", a.T, i.T))
		default:
			fg.fail("Index on %v", x.X.Type())
		}
	case *ssa.UnOp:
		fg.unop(st, x)
	case *ssa.BinOp:
		fg.binop(st, x)
	case *ssa.Store:
		p := fg.val(x.Addr)
		v := fg.val(x.Val)
		l := fg.locOf(p)
		if l.Kind == LObj || l.Kind == LCell {
			fg.safe("nil", in, fmt.Sprintf("(not (= %s 0))", l.Ref))
		}
		if v.Loc != nil && v.T == "" {
			// &obj.f stored into memory: a fresh cell holding the pointee's current value stands in for
			// the interior address. Only accepted when the function never writes that field afterwards
			// by a store of its own (checked here); callees writing it through another path are not
			// modelled (recorded as an assumption of the function).
			fa, isFA := x.Val.(*ssa.FieldAddr)
			el := x.Val.Type().(*types.Pointer).Elem()
			_, isS := structOf(el)
			_, isA := types.Unalias(el).Underlying().(*types.Array)
			if isFA && isS {
				// the address of an embedded struct of a foreign package (sync.Pool, sync.Mutex, ...): the
				// verified code cannot touch its fields, only hand it to (assumed) callees - the stored
				// pointer is the opaque interior reference that ghost fields of such objects hang on
				if n, ok := types.Unalias(el).(*types.Named); ok && n.Obj().Pkg() != nil && !strings.HasPrefix(n.Obj().Pkg().Path(), repoModule) {
					v = Val{T: fg.interiorRef(v.Loc), Ty: x.Val.Type()}
					fg.frameCheck(st, l, in)
					fg.store(st, l, v.T)
					break
				}
			}
			if !isFA || isS || isA {
				fg.fail("interior address stored to memory (outside the subset)")
			}
			for _, b := range fg.fn.Blocks {
				for _, oi := range b.Instrs {
					if os, ok := oi.(*ssa.Store); ok && os != x {
						if ofa, ok2 := os.Addr.(*ssa.FieldAddr); ok2 && ofa.Field == fa.Field && types.Identical(ofa.X.Type(), fa.X.Type()) {
							fg.fail("interior address stored to memory while the function also writes that field (outside the subset)")
						}
					}
				}
			}
			r := fg.allocRef(st)
			fg.assume(fmt.Sprintf("(> %s 0)", r))
			fam, csrt := fg.cellFamily(el)
			fg.heapSort[fam] = csrt
			fg.store(st, &Loc{Kind: LCell, Heap: fam, Ref: r, Ty: el}, fg.load(st, v.Loc))
			fg.snapshotCells++
			v = Val{T: r, Ty: x.Val.Type()}
		}
		if false {
		}
		fg.frameCheck(st, l, in)
		fg.store(st, l, v.T)
		if v.Clo != nil {
			fg.cellClosure(l, v.Clo)
		}
	case *ssa.Call:
		res := fg.call(st, x.Common(), x, x)
		if len(res) == 1 {
			fg.vals[x] = res[0]
		} else if len(res) > 1 {
			fg.vals[x] = Val{Tuple: res, Ty: x.Type()}
		} else {
			fg.vals[x] = Val{T: "0", Ty: x.Type()}
		}
	case *ssa.Extract:
		t := fg.val(x.Tuple)
		if t.Tuple == nil {
			fg.fail("extract from non-tuple")
		}
		fg.vals[x] = t.Tuple[x.Index]
	case *ssa.Phi:
		// handled at block entry
	case *ssa.Convert:
		fg.convert(st, x)
	case *ssa.ChangeType:
		a := fg.val(x.X)
		if a.Ty != nil && fg.sorts.sortOf(a.Ty) != fg.sorts.sortOf(x.Type()) {
			// a conversion between two named types that the encoding gives different sorts (structs
			// with identical fields): the result is an unconstrained value of the target sort (a sound
			// over-approximation; field-wise equality is not needed by any contract so far)
			v := fg.bindFresh(x)
			fg.assumeTyped(v, st)
			break
		}
		a.Ty = x.Type()
		fg.vals[x] = a
	case *ssa.ChangeInterface:
		a := fg.val(x.X)
		a.Ty = x.Type()
		fg.vals[x] = a
	case *ssa.MakeInterface:
		a := fg.val(x.X)
		if a.Loc != nil && a.T == "" {
			// an interior address (&s.f) passed as an interface value: a fresh cell holding a copy of
			// the pointee stands in for it, and is copied back after the call that receives it
			// (sound for callees that neither retain the pointer nor reach the pointee another way)
			el := x.X.Type().(*types.Pointer).Elem()
			if _, isA := types.Unalias(el).Underlying().(*types.Array); isA {
				fg.fail("interior array address converted to interface")
			}
			r := fg.allocRef(st)
			fg.assume(fmt.Sprintf("(> %s 0)", r))
			if fg.copyOut == nil {
				fg.copyOut = map[ssa.Value][]copyOutInfo{}
			}
			if sst, isS := structOf(el); isS {
				// an embedded struct: a fresh object holding a copy of its fields stands in for it
				obj := &Loc{Kind: LObj, Ref: r, Ty: el}
				for i := 0; i < sst.NumFields(); i++ {
					dst := fg.fieldLoc(obj, el, sst, i)
					src := fg.fieldLoc(a.Loc, el, sst, i)
					fg.store(st, dst, fg.load(st, src))
					fg.copyOut[x] = append(fg.copyOut[x], copyOutInfo{orig: src, cell: dst})
				}
				fg.ghostDefaults(st, r)
			} else {
				fam, csrt := fg.cellFamily(el)
				fg.heapSort[fam] = csrt
				cell := &Loc{Kind: LCell, Heap: fam, Ref: r, Ty: el}
				fg.store(st, cell, fg.load(st, a.Loc))
				fg.copyOut[x] = append(fg.copyOut[x], copyOutInfo{orig: a.Loc, cell: cell})
			}
			a = Val{T: r, Ty: x.X.Type()}
		}
		srt := fg.sorts.sortOf(x.X.Type())
		bv := fg.bind(x, fmt.Sprintf("(mk-iface %s %s)", fg.sorts.typeTag(x.X.Type()), fg.sorts.box(srt, a.T)))
		bv.DynTy = x.X.Type()
		fg.vals[x] = bv
	case *ssa.TypeAssert:
		fg.typeAssert(st, x)
	case *ssa.Slice:
		fg.sliceOp(st, x)
	case *ssa.MakeSlice:
		l := fg.val(x.Len)
		c := fg.val(x.Cap)
		fg.safe("makeslice", in, fmt.Sprintf("(and (<= 0 %s) (<= %s %s))", l.T, l.T, c.T))
		el := types.Unalias(x.Type()).Underlying().(*types.Slice).Elem()
		fam, srt := fg.elemFamily(el)
		fg.heapSort[fam] = srt
		r := fg.allocRef(st)
		h := fg.heap(st, fam, srt)
		fg.setHeap(st, fam, fmt.Sprintf("(store %s %s ((as const (Array Int %s)) %s))", h, r, fg.sorts.sortOf(el), fg.sorts.zero(el)))
		fg.bind(x, fmt.Sprintf("(mk-slice %s 0 %s %s)", r, l.T, c.T))
	case *ssa.MakeClosure:
		fn := x.Fn.(*ssa.Function)
		ci := &closureInfo{fn: fn}
		for _, b := range x.Bindings {
			ci.bindings = append(ci.bindings, fg.val(b))
		}
		n := fg.fresh("clo."+sanitize(fn.Name()), "Int")
		fg.assume(fmt.Sprintf("(> %s 0)", n))
		fg.vals[x] = Val{T: n, Ty: x.Type(), Clo: ci}
	case *ssa.MakeMap:
		fg.makeMap(st, x)
	case *ssa.MakeChan:
		fg.makeChan(st, x)
	case *ssa.Lookup:
		fg.lookup(st, x)
	case *ssa.MapUpdate:
		fg.mapUpdate(st, x)
	case *ssa.Range:
		fg.rangeInstr(st, x)
	case *ssa.Next:
		fg.nextInstr(st, x)
	case *ssa.Defer:
		fg.defers = append(fg.defers, x)
		fg.deferBlk = append(fg.deferBlk, fg.curBlock)
		// evaluate arguments now
		for _, a := range x.Call.Args {
			fg.val(a)
		}
	case *ssa.RunDefers:
		for i := len(fg.defers) - 1; i >= 0; i-- {
			d := fg.defers[i]
			db := fg.fn.Blocks[fg.deferBlk[i]]
			if db.Dominates(in.Block()) {
				fg.call(st, &d.Call, d, nil)
				continue
			}
			if !blockReaches(db, in.Block()) {
				continue // this defer statement cannot have executed on any path to here
			}
			if _, inLoop := fg.inAnyLoop(db); inLoop {
				fg.fail("defer inside a loop is outside the subset")
			}
			// conditional defer: the deferred call runs iff control passed through its block
			rd := fg.R[db.Index]
			if rd == "" {
				fg.fail("internal: defer block not yet translated")
			}
			saved := fg.R[fg.curBlock]
			fg.R[fg.curBlock] = fmt.Sprintf("(and %s %s)", saved, rd)
			alt := st.clone()
			fg.call(alt, &d.Call, d, nil)
			fg.R[fg.curBlock] = saved
			for fam, nv := range alt.heaps {
				ov, ok := st.heaps[fam]
				if !ok {
					ov = "H0." + fam
					fg.declare(ov, fg.heapSort[fam])
				}
				if ov != nv {
					fg.setHeap(st, fam, fmt.Sprintf("(ite %s %s %s)", rd, nv, ov))
				}
			}
		}
	case *ssa.Go:
		fg.goStmt(st, x)
	case *ssa.Send:
		fg.send(st, x)
	case *ssa.Select:
		fg.selectInstr(st, x)
	case *ssa.Panic:
		if fg.c == nil || !fg.c.MayPanic {
			fg.oblig("safe", "safe:panic@"+fg.instrLabel(in), "", fg.guard(), "false", "explicit panic reachable", fg.posOf(instrPos(in)))
		}
	case *ssa.Return, *ssa.If, *ssa.Jump:
		// terminators handled by the driver
	default:
		fg.fail("unsupported instruction %T: %s", in, in.String())
	}
}

func (fg *FG) alloc(st *State, x *ssa.Alloc) {
	el := x.Type().(*types.Pointer).Elem()
	r := fg.allocRef(st)
	fg.assume(fmt.Sprintf("(> %s 0)", r))
	if s, ok := structOf(el); ok {
		sn := fg.sorts.sortOf(el)
		_ = sn
		for i := 0; i < s.NumFields(); i++ {
			fam, srt := fg.fieldFamily(el, s, i)
			fg.heapSort[fam] = srt
			h := fg.heap(st, fam, srt)
			fg.setHeap(st, fam, fmt.Sprintf("(store %s %s %s)", h, r, fg.sorts.zero(s.Field(i).Type())))
		}
		fg.ghostDefaults(st, r)
		n := fg.define(fg.valName(x), "Int", r)
		fg.vals[x] = Val{T: n, Ty: x.Type()}
		return
	}
	if arr, ok := types.Unalias(el).Underlying().(*types.Array); ok {
		fam, srt := fg.elemFamily(arr.Elem())
		fg.heapSort[fam] = srt
		h := fg.heap(st, fam, srt)
		fg.setHeap(st, fam, fmt.Sprintf("(store %s %s ((as const (Array Int %s)) %s))", h, r, fg.sorts.sortOf(arr.Elem()), fg.sorts.zero(arr.Elem())))
		n := fg.define(fg.valName(x), "Int", r)
		fg.vals[x] = Val{T: n, Ty: x.Type()}
		return
	}
	fam, srt := fg.cellFamily(el)
	fg.heapSort[fam] = srt
	h := fg.heap(st, fam, srt)
	fg.setHeap(st, fam, fmt.Sprintf("(store %s %s %s)", h, r, fg.sorts.zero(el)))
	n := fg.define(fg.valName(x), "Int", r)
	fg.vals[x] = Val{T: n, Ty: x.Type()}
}

func (fg *FG) indexAddr(st *State, x *ssa.IndexAddr) {
	a := fg.val(x.X)
	i := fg.val(x.Index)
	switch u := types.Unalias(x.X.Type()).Underlying().(type) {
	case *types.Slice:
		fg.safe("index", x, fmt.Sprintf("(and (<= 0 %s) (< %s (s.len %s)))", i.T, i.T, a.T))
		fam, srt := fg.elemFamily(u.Elem())
		fg.heapSort[fam] = srt
		idx := fg.define("ix", "Int", fmt.Sprintf("(+ (s.off %s) %s)", a.T, i.T))
		fg.vals[x] = Val{Ty: x.Type(), Loc: &Loc{Kind: LElem, Heap: fam, Ref: fmt.Sprintf("(s.arr %s)", a.T), Idx: idx, Ty: u.Elem()}}
	case *types.Pointer:
		arr := types.Unalias(u.Elem()).Underlying().(*types.Array)
		fg.safe("index", x, fmt.Sprintf("(and (<= 0 %s) (< %s %d))", i.T, i.T, arr.Len()))
		base := fg.locOf(a)
		if base.Kind == LElem && base.Idx == "" && len(base.Path) == 0 {
			fam, srt := fg.elemFamily(arr.Elem())
			fg.heapSort[fam] = srt
			fg.safe("nil", x, fmt.Sprintf("(not (= %s 0))", base.Ref))
			fg.vals[x] = Val{Ty: x.Type(), Loc: &Loc{Kind: LElem, Heap: fam, Ref: base.Ref, Idx: i.T, Ty: arr.Elem()}}
		} else {
			fg.vals[x] = Val{Ty: x.Type(), Loc: base.withPath(PathStep{Index: i.T}, arr.Elem())}
		}
	default:
		fg.fail("IndexAddr on %v", x.X.Type())
	}
}

func (fg *FG) unop(st *State, x *ssa.UnOp) {
	switch x.Op {
	case token.MUL:
		p := fg.val(x.X)
		l := fg.locOf(p)
		if l.Kind == LObj || l.Kind == LCell || (l.Kind == LElem && l.Idx == "") {
			fg.safe("nil", x, fmt.Sprintf("(not (= %s 0))", l.Ref))
		}
		if l.Kind == LGlobal && len(l.Path) == 0 {
			v := Val{T: l.Ref, Ty: x.Type()}
			fg.vals[x] = v
			return
		}
		v := fg.bind(x, fg.load(st, l))
		fg.assumeTyped(v, st)
		if ci := fg.closureAt(l); ci != nil {
			v.Clo = ci
			fg.vals[x] = v
		}
	case token.NOT:
		a := fg.val(x.X)
		fg.bind(x, "(not "+a.T+")")
	case token.SUB:
		a := fg.val(x.X)
		fg.bind(x, "(- "+a.T+")")
	case token.ARROW:
		fg.recv(st, x)
	case token.XOR:
		a := fg.val(x.X)
		if bits, ok := isUnsigned(x.Type()); ok {
			fg.bind(x, fmt.Sprintf("(- %s 1 %s)", pow2(bits), a.T))
		} else {
			fg.bind(x, fmt.Sprintf("(- (- %s) 1)", a.T))
		}
	default:
		fg.fail("unsupported unary op %s", x.Op)
	}
}

func (fg *FG) binop(st *State, x *ssa.BinOp) {
	a := fg.val(x.X)
	b := fg.val(x.Y)
	t := x.X.Type()
	srt := fg.sorts.sortOf(t)
	switch x.Op {
	case token.EQL, token.NEQ:
		if a.Loc != nil && a.T == "" || b.Loc != nil && b.T == "" {
			fg.fail("comparison of interior addresses")
		}
		var e string
		if srt == "Slice" {
			// only comparison with nil is legal
			other := a
			if c, ok := x.X.(*ssa.Const); ok && c.Value == nil {
				other = b
			}
			e = fmt.Sprintf("(= (s.arr %s) 0)", other.T)
		} else {
			e = fmt.Sprintf("(= %s %s)", a.T, b.T)
		}
		if x.Op == token.NEQ {
			e = "(not " + e + ")"
		}
		fg.bind(x, e)
	case token.LSS, token.LEQ, token.GTR, token.GEQ:
		if srt == "Str" {
			fg.declareFun("strlt", []string{"Str", "Str"}, "Bool")
			var e string
			switch x.Op {
			case token.LSS:
				e = fmt.Sprintf("(strlt %s %s)", a.T, b.T)
			case token.GTR:
				e = fmt.Sprintf("(strlt %s %s)", b.T, a.T)
			case token.LEQ:
				e = fmt.Sprintf("(not (strlt %s %s))", b.T, a.T)
			case token.GEQ:
				e = fmt.Sprintf("(not (strlt %s %s))", a.T, b.T)
			}
			fg.bind(x, e)
			return
		}
		op := map[token.Token]string{token.LSS: "<", token.LEQ: "<=", token.GTR: ">", token.GEQ: ">="}[x.Op]
		fg.bind(x, fmt.Sprintf("(%s %s %s)", op, a.T, b.T))
	case token.ADD:
		if srt == "Str" {
			fg.bind(x, fmt.Sprintf("(strcat %s %s)", a.T, b.T))
			return
		}
		fg.arith(x, fmt.Sprintf("(+ %s %s)", a.T, b.T))
	case token.SUB:
		e := fmt.Sprintf("(- %s %s)", a.T, b.T)
		if bits, ok := isUnsigned(x.Type()); ok && bits == 64 && !(fg.c != nil && fg.c.Wrapping) {
			fg.safe("uwrap", x, fmt.Sprintf("(>= %s 0)", e))
			fg.bind(x, e)
			return
		}
		fg.arith(x, e)
	case token.MUL:
		fg.arith(x, fmt.Sprintf("(* %s %s)", a.T, b.T))
	case token.QUO:
		fg.safe("div0", x, fmt.Sprintf("(not (= %s 0))", b.T))
		if _, ok := isUnsigned(x.Type()); ok {
			fg.bind(x, fmt.Sprintf("(div %s %s)", a.T, b.T))
		} else {
			// truncation toward zero
			fg.bind(x, fmt.Sprintf("(ite (>= %s 0) (div %s %s) (- (div (- %s) %s)))", a.T, a.T, b.T, a.T, b.T))
		}
	case token.REM:
		fg.safe("div0", x, fmt.Sprintf("(not (= %s 0))", b.T))
		if _, ok := isUnsigned(x.Type()); ok {
			fg.bind(x, fmt.Sprintf("(mod %s %s)", a.T, b.T))
		} else {
			fg.bind(x, fmt.Sprintf("(ite (>= %s 0) (mod %s (abs %s)) (- (mod (- %s) (abs %s))))", a.T, a.T, b.T, a.T, b.T))
		}
	case token.SHL:
		if c, ok := x.Y.(*ssa.Const); ok {
			n, _ := constant.Int64Val(constant.ToInt(c.Value))
			fg.arith(x, fmt.Sprintf("(* %s %s)", a.T, pow2big(int(n))))
			return
		}
		fg.uninterpBin(x, "shl", a, b)
	case token.SHR:
		if c, ok := x.Y.(*ssa.Const); ok {
			if _, uns := isUnsigned(x.Type()); uns || true {
				n, _ := constant.Int64Val(constant.ToInt(c.Value))
				fg.bind(x, fmt.Sprintf("(div %s %s)", a.T, pow2big(int(n))))
				return
			}
		}
		fg.uninterpBin(x, "shr", a, b)
	case token.AND:
		if c, ok := x.Y.(*ssa.Const); ok && isInteger(t) {
			if n, ok2 := constant.Int64Val(constant.ToInt(c.Value)); ok2 && n >= 0 && (n+1)&n == 0 {
				fg.bind(x, fmt.Sprintf("(mod %s %d)", a.T, n+1))
				return
			}
		}
		fg.uninterpBin(x, "bvand", a, b)
	case token.OR:
		fg.uninterpBin(x, "bvor", a, b)
	case token.XOR:
		fg.uninterpBin(x, "bvxor", a, b)
	case token.AND_NOT:
		fg.uninterpBin(x, "bvandnot", a, b)
	default:
		fg.fail("unsupported binary op %s", x.Op)
	}
}

func pow2big(n int) string {
	s := "1"
	// decimal doubling
	digits := []int{1}
	for i := 0; i < n; i++ {
		carry := 0
		for j := 0; j < len(digits); j++ {
			d := digits[j]*2 + carry
			digits[j] = d % 10
			carry = d / 10
		}
		if carry > 0 {
			digits = append(digits, carry)
		}
	}
	var sb strings.Builder
	for j := len(digits) - 1; j >= 0; j-- {
		sb.WriteByte(byte('0' + digits[j]))
	}
	s = sb.String()
	return s
}

func (fg *FG) uninterpBin(x *ssa.BinOp, name string, a, b Val) {
	fg.declareFun(name, []string{"Int", "Int"}, "Int")
	v := fg.bind(x, fmt.Sprintf("(%s %s %s)", name, a.T, b.T))
	fg.assumeTyped(v, nil)
	fg.g.noteAssumption("bit operation " + name + " is uninterpreted (only its result range is known)")
}

// arith binds the result of an integer operation applying the machine-integer model:
// unsigned types narrower than 64 bits wrap (mod 2^n); 64-bit and signed arithmetic is mathematical.
func (fg *FG) arith(x ssa.Value, e string) {
	if bits, ok := isUnsigned(x.Type()); ok && bits == 64 && fg.c != nil && fg.c.Wrapping {
		// contracts marked "wrapping": 64-bit unsigned arithmetic is modular
		fg.bind(x, fmt.Sprintf("(mod %s %s)", e, pow2(64)))
		return
	}
	if bits, ok := isUnsigned(x.Type()); ok && bits < 64 {
		fg.bind(x, fmt.Sprintf("(mod %s %s)", e, pow2(bits)))
		return
	}
	fg.bind(x, e)
}

func (fg *FG) convert(st *State, x *ssa.Convert) {
	a := fg.val(x.X)
	from := types.Unalias(x.X.Type()).Underlying()
	to := types.Unalias(x.Type()).Underlying()
	fb, fIsB := from.(*types.Basic)
	tb, tIsB := to.(*types.Basic)
	// integer -> floating point: the exact real value (floats are modelled as reals)
	if fIsB && tIsB && fb.Info()&types.IsInteger != 0 && tb.Info()&types.IsFloat != 0 {
		fg.bind(x, fmt.Sprintf("(to_real %s)", a.T))
		return
	}
	switch {
	case fIsB && tIsB && fb.Info()&types.IsInteger != 0 && tb.Info()&types.IsInteger != 0:
		if bits, ok := isUnsigned(x.Type()); ok {
			fbits, fu := isUnsigned(x.X.Type())
			if fu && fbits <= bits {
				fg.bind(x, a.T)
				return
			}
			if bits == 64 {
				// signed -> uint64: negative values would wrap around; demand non-negativity
				if !(fg.c != nil && fg.c.Wrapping) {
					fg.safe("conv", x, fmt.Sprintf("(>= %s 0)", a.T))
					fg.bind(x, a.T)
				} else {
					fg.bind(x, fmt.Sprintf("(mod %s %s)", a.T, pow2(64)))
				}
				return
			}
			fg.bind(x, fmt.Sprintf("(mod %s %s)", a.T, pow2(bits)))
			return
		}
		if bits, ok := isSignedNarrow(x.Type()); ok {
			// narrowing to a signed type: keep value, demand it fits
			fbits, fn := isSignedNarrow(x.X.Type())
			if !(fn && fbits <= bits) {
				if ub, uok := isUnsigned(x.X.Type()); !(uok && ub < bits) {
					fg.safe("conv", x, fmt.Sprintf("(and (<= (- %s) %s) (< %s %s))", pow2(bits-1), a.T, a.T, pow2(bits-1)))
				}
			}
			fg.bind(x, a.T)
			return
		}
		fg.bind(x, a.T)
	case fIsB && fb.Info()&types.IsString != 0 && isByteSlice(to):
		// []byte(s): fresh array holding the bytes of s
		fam, srt := fg.elemFamily(types.Typ[types.Uint8])
		fg.heapSort[fam] = srt
		r := fg.allocRef(st)
		arr := fg.fresh("bytes", "(Array Int Int)")
		fg.assume(fmt.Sprintf("(forall ((i Int)) (! (=> (and (<= 0 i) (< i (strlen %s))) (= (select %s i) (strat %s i))) :pattern ((select %s i))))", a.T, arr, a.T, arr))
		h := fg.heap(st, fam, srt)
		fg.setHeap(st, fam, fmt.Sprintf("(store %s %s %s)", h, r, arr))
		c := fg.fresh("cap", "Int")
		fg.assume(fmt.Sprintf("(>= %s (strlen %s))", c, a.T))
		// the new slice holds exactly the bytes of the string (as a byte-string value, too)
		fg.declareFun("bytes.ofstr", []string{"Str"}, "Bytes")
		if !fg.declSet["ax.bytes.ofstr"] {
			fg.declSet["ax.bytes.ofstr"] = true
			fg.decls = append(fg.decls, "(assert (forall ((s Str)) (! (= (blen (bytes.ofstr s)) (strlen s)) :pattern ((bytes.ofstr s)))))")
			fg.decls = append(fg.decls, "(assert (forall ((s Str) (i Int)) (! (=> (and (<= 0 i) (< i (strlen s))) (= (bat (bytes.ofstr s) i) (strat s i))) :pattern ((bat (bytes.ofstr s) i)))))")
		}
		fg.assume(fmt.Sprintf("(= (bytes.of %s 0 (strlen %s)) (bytes.ofstr %s))", arr, a.T, a.T))
		fg.bind(x, fmt.Sprintf("(mk-slice %s 0 (strlen %s) %s)", r, a.T, c))
	case isByteSlice(from) && tIsB && tb.Info()&types.IsString != 0:
		fg.bind(x, fg.bytesToStr(st, a.T))
	case fIsB && tIsB && fb.Info()&types.IsInteger != 0 && tb.Info()&types.IsString != 0:
		v := fg.bindFresh(x)
		_ = v
	default:
		if fg.sorts.sortOf(x.X.Type()) == fg.sorts.sortOf(x.Type()) {
			fg.bind(x, a.T)
			return
		}
		fg.fail("unsupported conversion %v -> %v", x.X.Type(), x.Type())
	}
}

func isByteSlice(t types.Type) bool {
	s, ok := t.(*types.Slice)
	if !ok {
		return false
	}
	b, ok := s.Elem().Underlying().(*types.Basic)
	return ok && b.Kind() == types.Uint8
}

// bytesToStr returns the string with the bytes of a slice in state st: str.of(array, off, len).
func (fg *FG) bytesToStr(st *State, sl string) string {
	fam, srt := fg.elemFamily(types.Typ[types.Uint8])
	fg.heapSort[fam] = srt
	fg.declareFun("str.of", []string{"(Array Int Int)", "Int", "Int"}, "Str")
	if !fg.declSet["ax.str.of"] {
		fg.declSet["ax.str.of"] = true
		fg.decls = append(fg.decls, "(assert (forall ((a (Array Int Int)) (o Int) (n Int)) (! (=> (>= n 0) (= (strlen (str.of a o n)) n)) :pattern ((str.of a o n)))))")
		fg.decls = append(fg.decls, "(assert (forall ((a (Array Int Int)) (o Int) (n Int) (i Int)) (! (=> (and (<= 0 i) (< i n) (<= 0 (select a (+ o i))) (< (select a (+ o i)) 256)) (= (strat (str.of a o n) i) (select a (+ o i)))) :pattern ((strat (str.of a o n) i)))))")
	}
	// the string made from a byte slice has that slice's bytes
	fg.declareFun("bytes.ofstr", []string{"Str"}, "Bytes")
	if !fg.declSet["ax.bytes.ofstr"] {
		fg.declSet["ax.bytes.ofstr"] = true
		fg.decls = append(fg.decls, "(assert (forall ((s Str)) (! (= (blen (bytes.ofstr s)) (strlen s)) :pattern ((bytes.ofstr s)))))")
		fg.decls = append(fg.decls, "(assert (forall ((s Str) (i Int)) (! (=> (and (<= 0 i) (< i (strlen s))) (= (bat (bytes.ofstr s) i) (strat s i))) :pattern ((bat (bytes.ofstr s) i)))))")
	}
	if !fg.declSet["ax.str.of.bytes"] {
		fg.declSet["ax.str.of.bytes"] = true
		fg.decls = append(fg.decls, "(assert (forall ((a (Array Int Int)) (o Int) (n Int)) (! (=> (>= n 0) (= (bytes.ofstr (str.of a o n)) (bytes.of a o n))) :pattern ((str.of a o n)))))")
	}
	return fmt.Sprintf("(str.of (select %s (s.arr %s)) (s.off %s) (s.len %s))", fg.heap(st, fam, srt), sl, sl, sl)
}

func (fg *FG) typeAssert(st *State, x *ssa.TypeAssert) {
	a := fg.val(x.X)
	var ok string
	var v string
	if tp, isTP := types.Unalias(x.AssertedType).(*types.TypeParam); isTP {
		// assertion to a type parameter (generic body verified for an opaque type): whether it holds
		// and what it yields are uninterpreted functions of the interface value
		srt := fg.sorts.sortOf(tp)
		fg.declareFun("tpis."+srt, []string{"Iface"}, "Bool")
		fg.declareFun("tpcast."+srt, []string{"Iface"}, srt)
		ok = fmt.Sprintf("(tpis.%s %s)", srt, a.T)
		v = fmt.Sprintf("(tpcast.%s %s)", srt, a.T)
	} else if _, isI := types.Unalias(x.AssertedType).Underlying().(*types.Interface); isI {
		id := fg.sorts.typeTag(x.AssertedType)
		ok = fmt.Sprintf("(and (not (= %s %s)) (implements (i.tag %s) %s))", a.T, ifaceNil, a.T, id)
		v = a.T
	} else {
		ok = fmt.Sprintf("(= (i.tag %s) %s)", a.T, fg.sorts.typeTag(x.AssertedType))
		v = fg.sorts.unbox(fg.sorts.sortOf(x.AssertedType), fmt.Sprintf("(i.val %s)", a.T))
	}
	if x.CommaOk {
		okn := fg.define("ok", "Bool", ok)
		z := fg.sorts.zero(x.AssertedType)
		vn := fg.define("ta", fg.sorts.sortOf(x.AssertedType), fmt.Sprintf("(ite %s %s %s)", okn, v, z))
		vv := Val{T: vn, Ty: x.AssertedType}
		fg.assumeTyped(vv, st)
		fg.vals[x] = Val{Tuple: []Val{vv, {T: okn, Ty: types.Typ[types.Bool]}}, Ty: x.Type()}
		return
	}
	fg.safe("typeassert", x, ok)
	vv := fg.bind(x, v)
	fg.assumeTyped(vv, st)
}

func (fg *FG) sliceOp(st *State, x *ssa.Slice) {
	a := fg.val(x.X)
	lo := "0"
	if x.Low != nil {
		lo = fg.val(x.Low).T
	}
	switch u := types.Unalias(x.X.Type()).Underlying().(type) {
	case *types.Slice:
		hi := fmt.Sprintf("(s.len %s)", a.T)
		if x.High != nil {
			hi = fg.val(x.High).T
		}
		mx := fmt.Sprintf("(s.cap %s)", a.T)
		if x.Max != nil {
			mx = fg.val(x.Max).T
			fg.safe("slice", x, fmt.Sprintf("(and (<= 0 %s) (<= %s %s) (<= %s %s) (<= %s (s.cap %s)))", lo, lo, hi, hi, mx, mx, a.T))
		} else {
			fg.safe("slice", x, fmt.Sprintf("(and (<= 0 %s) (<= %s %s) (<= %s (s.cap %s)))", lo, lo, hi, hi, a.T))
		}
		fg.bind(x, fmt.Sprintf("(mk-slice (s.arr %s) (+ (s.off %s) %s) (- %s %s) (- %s %s))", a.T, a.T, lo, hi, lo, mx, lo))
	case *types.Basic:
		hi := fmt.Sprintf("(strlen %s)", a.T)
		if x.High != nil {
			hi = fg.val(x.High).T
		}
		fg.safe("slice", x, fmt.Sprintf("(and (<= 0 %s) (<= %s %s) (<= %s (strlen %s)))", lo, lo, hi, hi, a.T))
		fg.declareFun("substr", []string{"Str", "Int", "Int"}, "Str")
		if !fg.declSet["ax.substr"] {
			fg.declSet["ax.substr"] = true
			fg.decls = append(fg.decls, "(assert (forall ((s Str) (l Int) (h Int)) (! (=> (and (<= 0 l) (<= l h) (<= h (strlen s))) (= (strlen (substr s l h)) (- h l))) :pattern ((substr s l h)))))")
			fg.decls = append(fg.decls, "(assert (forall ((s Str) (l Int) (h Int) (i Int)) (! (=> (and (<= 0 i) (< i (- h l))) (= (strat (substr s l h) i) (strat s (+ l i)))) :pattern ((strat (substr s l h) i)))))")
		}
		fg.bind(x, fmt.Sprintf("(substr %s %s %s)", a.T, lo, hi))
	case *types.Pointer:
		arr := types.Unalias(u.Elem()).Underlying().(*types.Array)
		base := fg.locOf(a)
		if !(base.Kind == LElem && base.Idx == "" && len(base.Path) == 0) {
			fg.fail("slicing an array that is embedded in another object is outside the subset")
		}
		hi := fmt.Sprint(arr.Len())
		if x.High != nil {
			hi = fg.val(x.High).T
		}
		fg.safe("slice", x, fmt.Sprintf("(and (<= 0 %s) (<= %s %s) (<= %s %d))", lo, lo, hi, hi, arr.Len()))
		fg.bind(x, fmt.Sprintf("(mk-slice %s %s (- %s %s) (- %d %s))", base.Ref, lo, hi, lo, arr.Len(), lo))
	default:
		fg.fail("Slice on %v", x.X.Type())
	}
}

// blockReaches reports whether there is a CFG path from a to b.
func blockReaches(a, b *ssa.BasicBlock) bool {
	seen := map[int]bool{}
	stack := []*ssa.BasicBlock{a}
	for len(stack) > 0 {
		x := stack[len(stack)-1]
		stack = stack[:len(stack)-1]
		if x == b {
			return true
		}
		if seen[x.Index] {
			continue
		}
		seen[x.Index] = true
		stack = append(stack, x.Succs...)
	}
	return false
}

func (fg *FG) inAnyLoop(b *ssa.BasicBlock) (int, bool) {
	for h, blocks := range fg.loopBlocks {
		if blocks[b.Index] {
			return h, true
		}
	}
	return 0, false
}

// ghostDefaults initialises the "any" ghost fields that declare a default on a freshly allocated object.
func (fg *FG) ghostDefaults(st *State, r string) {
	for _, k := range sortedKeys(fg.g.ct.GhostDefaults) {
		if !strings.HasPrefix(k, "any.") {
			continue
		}
		name := strings.TrimPrefix(k, "any.")
		fam := "G_any_" + sanitize(name)
		env := &Env{fg: fg, vars: map[string]Val{}, st: st}
		t, srt := env.resolveType(fg.g.ct.GhostFields[k])
		if t != nil {
			srt = fg.sorts.sortOf(t)
			fg.heapTy[fam] = t
		}
		fg.heapSort[fam] = "(Array Int " + srt + ")"
		h := fg.heap(st, fam, "")
		fg.setHeap(st, fam, fmt.Sprintf("(store %s %s %s)", h, r, fg.g.ct.GhostDefaults[k]))
	}
}
