package main

import (
	"go/ast"
	"golang.org/x/tools/go/ssa"
	"os"
	"runtime/debug"
	"fmt"
	"go/constant"
	"go/types"
	"strconv"
	"strings"
)

// Env is the environment in which a specification expression is translated.
type Env struct {
	fg    *FG
	vars  map[string]Val
	st    *State
	old   *State
	local func(name string) (Val, bool)
	pkg   *types.Package
	bound map[string]bool // SMT-bound variable names (for pattern inference)
	depth int
	prev  *Env // state at the loop head (step clauses)
	loopEntry *State // memory state at loop entry (loop clauses only)
	tsubst map[string]types.Type // type parameters of an instantiated generic callee -> its type arguments
}

func (e *Env) child() *Env {
	n := *e
	n.vars = map[string]Val{}
	for k, v := range e.vars {
		n.vars[k] = v
	}
	return &n
}

func (e *Env) sorts() *Sorts { return e.fg.sorts }

func (e *Env) fail(x *SExpr, f string, a ...interface{}) {
	if os.Getenv("GOVC_DEBUG") != "" {
		debug.PrintStack()
		fmt.Fprintf(os.Stderr, "curBlock=%d\n", e.fg.curBlock)
	}
	e.fg.fail("spec %q: %s", x.String(), fmt.Sprintf(f, a...))
}

func (v Val) sortIn(s *Sorts) string {
	if v.Ty != nil {
		return s.sortOf(v.Ty)
	}
	return v.Sort
}

func boolVal(t string) Val { return Val{T: t, Ty: types.Typ[types.Bool]} }
func intVal(t string) Val  { return Val{T: t, Ty: types.Typ[types.Int]} }

func isBoolTy(t types.Type) bool {
	if t == nil {
		return false
	}
	b, ok := t.Underlying().(*types.Basic)
	return ok && b.Info()&types.IsBoolean != 0
}

// resolveType resolves a type written in a contract.
func (e *Env) resolveType(s string) (types.Type, string) {
	s = strings.TrimSpace(s)
	if t, ok := e.tsubst[s]; ok {
		return t, ""
	}
	if strings.HasPrefix(s, "*") {
		t, _ := e.resolveType(s[1:])
		if t == nil {
			e.fg.fail("cannot resolve type %s", s)
		}
		return types.NewPointer(t), ""
	}
	if strings.HasPrefix(s, "[]") {
		t, _ := e.resolveType(s[2:])
		if t == nil {
			e.fg.fail("cannot resolve type %s", s)
		}
		return types.NewSlice(t), ""
	}
	if strings.HasPrefix(s, "[") {
		i := strings.Index(s, "]")
		n, _ := strconv.Atoi(s[1:i])
		t, _ := e.resolveType(s[i+1:])
		return types.NewArray(t, int64(n)), ""
	}
	if strings.HasPrefix(s, "seq[") && strings.HasSuffix(s, "]") {
		t, srt := e.resolveType(s[4 : len(s)-1])
		if t != nil {
			srt = e.fg.sorts.sortOf(t)
		}
		return nil, "(Array Int " + srt + ")"
	}
	if strings.HasPrefix(s, "gomap[") {
		// the Go map type map[K]V (a reference to a map object)
		depth := 0
		for i := 5; i < len(s); i++ {
			if s[i] == '[' {
				depth++
			}
			if s[i] == ']' {
				depth--
				if depth == 0 {
					kt, _ := e.resolveType(s[6:i])
					vt, _ := e.resolveType(s[i+1:])
					if kt == nil || vt == nil {
						e.fg.fail("cannot resolve type %s", s)
					}
					return types.NewMap(kt, vt), ""
				}
			}
		}
	}
	if strings.HasPrefix(s, "map[") {
		// spec-level total map: map[K]V -> (Array K V)
		depth := 0
		for i := 3; i < len(s); i++ {
			if s[i] == '[' {
				depth++
			}
			if s[i] == ']' {
				depth--
				if depth == 0 {
					kt, ks := e.resolveType(s[4:i])
					if kt != nil {
						ks = e.fg.sorts.sortOf(kt)
					}
					vt, vs := e.resolveType(s[i+1:])
					if vt != nil {
						vs = e.fg.sorts.sortOf(vt)
					}
					return nil, "(Array " + ks + " " + vs + ")"
				}
			}
		}
	}
	switch s {
	case "Bytes":
		return nil, "Bytes"
	case "Bool":
		return nil, "Bool"
	case "Int":
		return nil, "Int"
	case "Ref":
		return nil, "Int"
	case "Slice":
		return nil, "Slice"
	case "Iface":
		return nil, "Iface"
	}
	if srt, ok := e.fg.g.specSorts[s]; ok {
		return nil, srt
	}
	if i := strings.Index(s, "["); i > 0 && strings.HasSuffix(s, "]") && !strings.HasPrefix(s, "seq[") && !strings.HasPrefix(s, "map[") {
		// generic instantiation
		base, _ := e.resolveType(s[:i])
		named, ok := base.(*types.Named)
		if !ok || named.TypeParams().Len() == 0 {
			e.fg.fail("%s is not a generic type", s[:i])
		}
		var targs []types.Type
		for _, a := range splitTop(s[i+1:len(s)-1], ',') {
			t, _ := e.resolveType(strings.TrimSpace(a))
			if t == nil {
				e.fg.fail("cannot resolve type argument %s", a)
			}
			targs = append(targs, t)
		}
		inst, err := types.Instantiate(nil, named, targs, false)
		if err != nil {
			e.fg.fail("cannot instantiate %s: %v", s, err)
		}
		return inst, ""
	}
	if i := strings.Index(s, "."); i >= 0 {
		pn, tn := s[:i], s[i+1:]
		if p := e.fg.g.findPkg(e.pkg, pn); p != nil {
			if o := p.Scope().Lookup(tn); o != nil {
				if tnm, ok := o.(*types.TypeName); ok {
					return tnm.Type(), ""
				}
			}
		}
		e.fg.fail("cannot resolve type %s", s)
	}
	if o := types.Universe.Lookup(s); o != nil {
		if tn, ok := o.(*types.TypeName); ok {
			return tn.Type(), ""
		}
	}
	if e.pkg != nil {
		if o := e.pkg.Scope().Lookup(s); o != nil {
			if tn, ok := o.(*types.TypeName); ok {
				return tn.Type(), ""
			}
		}
	}
	// type parameters of the function under verification (an instance: its type arguments)
	if e.fg.fn != nil {
		for fn := e.fg.fn; fn != nil; fn = fn.Parent() {
			if tps, tas := fn.TypeParams(), fn.TypeArgs(); tps != nil && len(tas) == tps.Len() {
				for i := 0; i < tps.Len(); i++ {
					if tps.At(i).Obj().Name() == s {
						return tas[i], ""
					}
				}
			}
		}
		for _, tp := range e.fg.typeParams() {
			if tp.Obj().Name() == s {
				return tp, ""
			}
		}
	}
	e.fg.fail("cannot resolve type %s", s)
	return nil, ""
}

func (fg *FG) typeParams() []*types.TypeParam {
	var out []*types.TypeParam
	fn := fg.fn
	for fn != nil {
		if tps := fn.TypeParams(); tps != nil {
			for i := 0; i < tps.Len(); i++ {
				out = append(out, tps.At(i))
			}
		}
		if sig := fn.Signature; sig != nil && sig.Recv() != nil {
			rt := sig.Recv().Type()
			if p, ok := rt.(*types.Pointer); ok {
				rt = p.Elem()
			}
			if n, ok := rt.(*types.Named); ok {
				for i := 0; i < n.TypeParams().Len(); i++ {
					out = append(out, n.TypeParams().At(i))
				}
			}
		}
		fn = fn.Parent()
	}
	return out
}

func (e *Env) constVal(c *types.Const) Val {
	v := c.Val()
	switch v.Kind() {
	case constant.Int:
		s := v.ExactString()
		if strings.HasPrefix(s, "-") {
			s = "(- " + s[1:] + ")"
		}
		return Val{T: s, Ty: c.Type()}
	case constant.Bool:
		return Val{T: strconv.FormatBool(constant.BoolVal(v)), Ty: c.Type()}
	case constant.String:
		return Val{T: e.fg.strLit(constant.StringVal(v)), Ty: c.Type()}
	}
	e.fg.fail("unsupported constant %v", c)
	return Val{}
}

func (fg *FG) strLit(s string) string {
	if s == "" {
		return "str.empty"
	}
	if n, ok := fg.strLits[s]; ok {
		return n
	}
	n := fmt.Sprintf("str.lit%d", len(fg.strLits))
	fg.strLits[s] = n
	fg.declare(n, "Str")
	fg.decls = append(fg.decls, fmt.Sprintf("(assert (= (strlen %s) %d))", n, len(s)))
	if len(s) <= 64 {
		for i := 0; i < len(s); i++ {
			fg.decls = append(fg.decls, fmt.Sprintf("(assert (= (strat %s %d) %d))", n, i, s[i]))
		}
	}
	// distinct from other literals of the same length (different lengths are distinct via strlen)
	for o, on := range fg.strLits {
		if o != s && len(o) == len(s) {
			fg.decls = append(fg.decls, fmt.Sprintf("(assert (not (= %s %s)))", n, on))
		}
	}
	return n
}

func (fg *FG) globalConst(pkgName, name string, ty types.Type) string {
	n := "G." + sanitize(pkgName) + "." + sanitize(name)
	if !fg.declSet[n] {
		fg.declare(n, fg.sorts.sortOf(ty))
		fg.g.noteAssumption("package-level variable " + pkgName + "." + name + " is treated as an immutable constant")
		if _, isI := ty.Underlying().(*types.Interface); isI {
			// sentinel errors: non-nil and pairwise distinct
			fg.decls = append(fg.decls, fmt.Sprintf("(assert (not (= %s %s)))", n, ifaceNil))
			for _, o := range fg.g.globalsSeen(fg) {
				if o != n {
					fg.decls = append(fg.decls, fmt.Sprintf("(assert (not (= %s %s)))", n, o))
				}
			}
			fg.g.addGlobalSeen(fg, n)
		}
		if fact := fg.wfTerm(ty, n, 0, "H0.$alloc"); fact != "" {
			fg.declare("H0.$alloc", "Int")
			fg.decls = append(fg.decls, "(assert "+fact+")")
		}
		// facts established by the package initialiser (assumed, listed)
		if facts := fg.g.ct.InitFacts[pkgName+"."+name]; len(facts) > 0 {
			env := &Env{fg: fg, vars: map[string]Val{}, st: fg.entrySt, pkg: fg.g.pkgByName(pkgName)}
			for _, f := range facts {
				fg.items = append(fg.items, item{kind: itAssume, text: "(assert " + env.tr(f.E).T + ")"})
				fg.g.noteAssumption("initialiser fact about " + pkgName + "." + name + ": " + f.Src)
			}
		}
	}
	return n
}

// tr translates a specification expression.
func (e *Env) tr(x *SExpr) Val {
	switch x.Kind {
	case SInt:
		s := x.Name
		if strings.HasPrefix(s, "0x") || strings.HasPrefix(s, "0X") {
			n, err := strconv.ParseUint(s[2:], 16, 64)
			if err != nil {
				e.fail(x, "bad hex literal")
			}
			s = strconv.FormatUint(n, 10)
		}
		return Val{T: s, Ty: types.Typ[types.UntypedInt]}
	case SBool:
		return boolVal(x.Name)
	case SStr:
		return Val{T: e.fg.strLit(x.Name), Ty: types.Typ[types.String]}
	case SChar:
		s := x.Name
		var c int
		if strings.HasPrefix(s, "\\") {
			switch s {
			case "\\n":
				c = '\n'
			case "\\0":
				c = 0
			case "\\t":
				c = '\t'
			case "\\\\":
				c = '\\'
			default:
				if strings.HasPrefix(s, "\\x") {
					n, _ := strconv.ParseUint(s[2:], 16, 8)
					c = int(n)
				} else {
					e.fail(x, "bad char literal")
				}
			}
		} else {
			c = int(s[0])
		}
		return Val{T: strconv.Itoa(c), Ty: types.Typ[types.UntypedInt]}
	case SNil:
		return Val{T: "nil", Ty: types.Typ[types.UntypedNil]}
	case SIdent:
		return e.ident(x)
	case SOld:
		if e.old == nil {
			e.fail(x, "old() not available here")
		}
		n := *e
		n.st = e.old
		return n.tr(x.A)
	case SUnary:
		return e.unary(x)
	case SBinary:
		return e.binary(x)
	case SCond:
		c := e.tr(x.A)
		a := e.tr(x.B)
		b := e.tr(x.C)
		a, b = e.unify(a, b)
		return Val{T: fmt.Sprintf("(ite %s %s %s)", c.T, a.T, b.T), Ty: a.Ty, Sort: a.Sort}
	case SSel:
		return e.sel(x)
	case SIndex:
		return e.index(x)
	case SSlice:
		return e.slice(x)
	case SCall:
		return e.call(x)
	case SQuant:
		return e.quant(x)
	case SZero:
		t, srt := e.resolveType(x.TypeS)
		if t == nil {
			e.fail(x, "zero literal of spec sort %s", srt)
		}
		return Val{T: e.sorts().zero(t), Ty: t}
	case SLit:
		t, _ := e.resolveType(x.TypeS)
		st, ok := structOf(t)
		if !ok {
			e.fail(x, "composite literal of non-struct")
		}
		sn := e.sorts().sortOf(t)
		var parts []string
		for i := 0; i < st.NumFields(); i++ {
			found := false
			for k, f := range x.Fields {
				if f == st.Field(i).Name() {
					v := e.coerce(e.tr(x.Args[k]), st.Field(i).Type())
					parts = append(parts, v.T)
					found = true
				}
			}
			if !found {
				parts = append(parts, e.sorts().zero(st.Field(i).Type()))
			}
		}
		return Val{T: fmt.Sprintf("(mk-%s %s)", sn, strings.Join(parts, " ")), Ty: t}
	}
	e.fail(x, "unsupported spec expression kind")
	return Val{}
}

func (e *Env) ident(x *SExpr) Val {
	name := x.Name
	if v, ok := e.vars[name]; ok {
		return v
	}
	if e.local != nil {
		if v, ok := e.local(name); ok {
			return v
		}
	}
	if name == "world" {
		// the one object that carries process-wide ghost state (e.g. the clock)
		e.fg.declare("$world", "Int")
		if !e.fg.declSet["ax.world"] {
			e.fg.declSet["ax.world"] = true
			e.fg.decls = append(e.fg.decls, "(assert (> $world 0))")
		}
		return Val{T: "$world", Sort: "Int"}
	}
	if c, ok := e.fg.g.ct.Consts[name]; ok {
		ce, err := parseSpec(c)
		if err != nil {
			e.fail(x, "bad const %s", name)
		}
		return e.tr(ce)
	}
	if e.pkg != nil {
		if o := e.pkg.Scope().Lookup(name); o != nil {
			switch oo := o.(type) {
			case *types.Const:
				return e.constVal(oo)
			case *types.Var:
				return Val{T: e.fg.globalConst(e.pkg.Name(), name, oo.Type()), Ty: oo.Type()}
			case *types.Func:
				return Val{T: e.fg.funcConst(e.pkg.Name() + "." + name), Ty: oo.Type()}
			}
		}
	}
	if o := types.Universe.Lookup(name); o != nil {
		if c, ok := o.(*types.Const); ok {
			return e.constVal(c)
		}
	}
	if sf, ok := e.fg.g.ct.Funcs[name]; ok && len(sf.Params) == 0 {
		return e.applySpecFunc(x, sf, nil)
	}
	// x0: the value of parameter x on entry (parameters are mutable in Go)
	if strings.HasSuffix(name, "0") {
		if v, ok := e.fg.params[strings.TrimSuffix(name, "0")]; ok {
			return v
		}
	}
	e.fail(x, "unknown identifier %s", name)
	return Val{}
}

func (fg *FG) funcConst(key string) string {
	n := "fn." + sanitize(key)
	if !fg.declSet[n] {
		fg.declare(n, "Int")
		fg.decls = append(fg.decls, fmt.Sprintf("(assert (> %s 0))", n))
	}
	return n
}

func (e *Env) unary(x *SExpr) Val {
	switch x.Op {
	case "!":
		a := e.tr(x.A)
		return boolVal("(not " + a.T + ")")
	case "-":
		a := e.tr(x.A)
		return Val{T: "(- " + a.T + ")", Ty: a.Ty, Sort: a.Sort}
	case "*":
		a := e.tr(x.A)
		l := e.fg.locOf(a)
		return Val{T: e.fg.load(e.st, l), Ty: l.Ty}
	}
	e.fail(x, "unsupported unary %s", x.Op)
	return Val{}
}

func isUntyped(t types.Type) bool {
	b, ok := t.(*types.Basic)
	return ok && b.Info()&types.IsUntyped != 0
}

// coerce converts untyped constants / nil to the given type.
func (e *Env) coerce(v Val, t types.Type) Val {
	if v.Ty != nil && isUntyped(v.Ty) {
		if b := v.Ty.(*types.Basic); b.Kind() == types.UntypedNil {
			return Val{T: e.sorts().zero(t), Ty: t}
		}
		return Val{T: v.T, Ty: t}
	}
	return v
}

func (e *Env) unify(a, b Val) (Val, Val) {
	if a.Ty != nil && isUntyped(a.Ty) && b.Ty != nil && !isUntyped(b.Ty) {
		a = e.coerce(a, b.Ty)
	} else if b.Ty != nil && isUntyped(b.Ty) && a.Ty != nil && !isUntyped(a.Ty) {
		b = e.coerce(b, a.Ty)
	} else if a.Ty == nil && b.Ty != nil && isUntyped(b.Ty) {
		if b.Ty.(*types.Basic).Kind() == types.UntypedNil {
			e.fg.fail("nil compared with spec sort")
		}
		b = Val{T: b.T, Sort: a.Sort}
	} else if b.Ty == nil && a.Ty != nil && isUntyped(a.Ty) {
		a = Val{T: a.T, Sort: b.Sort}
	}
	return a, b
}

func (e *Env) binary(x *SExpr) Val {
	switch x.Op {
	case "&&", "||", "==>", "<==>":
		a := e.tr(x.A)
		b := e.tr(x.B)
		op := map[string]string{"&&": "and", "||": "or", "==>": "=>", "<==>": "="}[x.Op]
		return boolVal(fmt.Sprintf("(%s %s %s)", op, a.T, b.T))
	}
	a := e.tr(x.A)
	b := e.tr(x.B)
	a, b = e.unify(a, b)
	switch x.Op {
	case "==", "!=":
		if (a.Loc != nil && a.T == "") || (b.Loc != nil && b.T == "") {
			// an interior address compared with nil: it is nil only if its base object is
			la, other := a, b
			if !(a.Loc != nil && a.T == "") {
				la, other = b, a
			}
			if (other.T == "0" || other.T == "nil") && la.Loc.Ref != "" {
				t := fmt.Sprintf("(= %s 0)", la.Loc.Ref)
				if x.Op == "!=" {
					t = "(not " + t + ")"
				}
				return boolVal(t)
			}
			e.fail(x, "comparison of interior addresses")
		}
		// slice compared with nil
		var t string
		if a.Ty != nil {
			if _, isSl := a.Ty.Underlying().(*types.Slice); isSl && (b.T == sliceNil) {
				t = fmt.Sprintf("(= (s.arr %s) 0)", a.T)
			}
		}
		if t == "" && a.Ty == nil && a.Sort == "Bytes" {
			t = fmt.Sprintf("(bytes.eq %s %s)", a.T, b.T)
		}
		if t == "" {
			t = fmt.Sprintf("(= %s %s)", a.T, b.T)
		}
		if x.Op == "!=" {
			t = "(not " + t + ")"
		}
		return boolVal(t)
	case "<", "<=", ">", ">=":
		if a.sortIn(e.sorts()) == "Str" {
			e.fail(x, "string ordering not supported in specs")
		}
		return boolVal(fmt.Sprintf("(%s %s %s)", x.Op, a.T, b.T))
	case "+":
		if a.sortIn(e.sorts()) == "Str" {
			return Val{T: fmt.Sprintf("(strcat %s %s)", a.T, b.T), Ty: a.Ty}
		}
		return Val{T: fmt.Sprintf("(+ %s %s)", a.T, b.T), Ty: a.Ty, Sort: a.Sort}
	case "-", "*":
		return Val{T: fmt.Sprintf("(%s %s %s)", x.Op, a.T, b.T), Ty: a.Ty, Sort: a.Sort}
	case "/":
		// Go division truncates toward zero; spec division is used on non-negative operands only: use div
		return Val{T: fmt.Sprintf("(div %s %s)", a.T, b.T), Ty: a.Ty, Sort: a.Sort}
	case "%":
		return Val{T: fmt.Sprintf("(mod %s %s)", a.T, b.T), Ty: a.Ty, Sort: a.Sort}
	}
	e.fail(x, "unsupported binary operator %s", x.Op)
	return Val{}
}

// selField selects field path of a struct value or through a pointer.
func (e *Env) selVal(x *SExpr, a Val, name string) Val {
	fg := e.fg
	if a.Ty == nil {
		if a.Sort == "Iface" {
			a = Val{T: fmt.Sprintf("(i.val %s)", a.T), Sort: "Int"}
		}
		if a.Sort == "Int" {
			if ty, ok := fg.g.ct.GhostFields["any."+name]; ok {
				t, srt := e.resolveType(ty)
				if t != nil {
					srt = e.sorts().sortOf(t)
					fg.heapTy["G_any_"+sanitize(name)] = t
				}
				fam := "G_any_" + sanitize(name)
				fg.heapSort[fam] = "(Array Int " + srt + ")"
				l := &Loc{Kind: LGhost, Heap: fam, Ref: a.T, Ty: t, GSort: srt}
				return Val{T: fg.load(e.st, l), Ty: t, Sort: srt}
			}
		}
		e.fail(x, "selection on spec sort")
	}
	// ghost fields
	if gf, ok := fg.ghostField(a.Ty, name); ok {
		ref := a
		t, srt := e.resolveType(gf.ty)
		if t != nil {
			srt = e.sorts().sortOf(t)
		}
		fg.heapSort[gf.family] = "(Array Int " + srt + ")"
		if t != nil {
			fg.heapTy[gf.family] = t
		}
		l := &Loc{Kind: LGhost, Heap: gf.family, Ref: fg.refOf(ref), Ty: t, GSort: srt}
		return Val{T: fg.load(e.st, l), Ty: t, Sort: srt}
	}
	// an unexported field name is resolved as the package that WROTE the clause sees it - the package
	// of the function under verification - before the package of a callee whose contract or
	// before-clause is being evaluated (an embedded foreign struct may have a field of the same name)
	var obj types.Object
	var index []int
	if fg.fn != nil {
		if own := fg.g.pkgOfFn(fg.fn); own != nil && own != e.pkg {
			if o, ix, _ := types.LookupFieldOrMethod(a.Ty, true, own, name); o != nil {
				if _, isVar := o.(*types.Var); isVar && !ast.IsExported(name) && o.Pkg() == own {
					obj, index = o, ix
				}
			}
		}
	}
	if obj == nil {
		obj, index, _ = types.LookupFieldOrMethod(a.Ty, true, e.pkg, name)
	}
	if obj == nil {
		// try without package restriction (unexported fields of other packages)
		obj, index, _ = lookupFieldAnyPkg(a.Ty, name)
	}
	fv, ok := obj.(*types.Var)
	if !ok || fv == nil {
		e.fail(x, "no field %s in %v", name, a.Ty)
	}
	cur := a
	for _, fi := range index {
		cur = e.stepField(x, cur, fi)
	}
	return cur
}

func lookupFieldAnyPkg(t types.Type, name string) (types.Object, []int, bool) {
	// search struct fields manually, following embedded fields breadth-first
	type cand struct {
		t    types.Type
		path []int
	}
	queue := []cand{{t, nil}}
	for depth := 0; depth < 4 && len(queue) > 0; depth++ {
		var next []cand
		for _, c := range queue {
			tt := types.Unalias(c.t)
			if p, ok := tt.Underlying().(*types.Pointer); ok {
				tt = p.Elem()
			}
			st, ok := tt.Underlying().(*types.Struct)
			if !ok {
				continue
			}
			for i := 0; i < st.NumFields(); i++ {
				f := st.Field(i)
				p := append(append([]int{}, c.path...), i)
				if f.Name() == name {
					return f, p, false
				}
				if f.Embedded() {
					next = append(next, cand{f.Type(), p})
				}
			}
		}
		queue = next
	}
	return nil, nil, false
}

func (e *Env) stepField(x *SExpr, a Val, fi int) Val {
	fg := e.fg
	t := types.Unalias(a.Ty)
	if p, ok := t.Underlying().(*types.Pointer); ok {
		st, isS := structOf(p.Elem())
		if !isS {
			e.fail(x, "field of pointer to non-struct")
		}
		base := fg.locOf(a)
		l := fg.fieldLoc(base, p.Elem(), st, fi)
		return Val{T: fg.load(e.st, l), Ty: st.Field(fi).Type()}
	}
	st, isS := structOf(t)
	if !isS {
		e.fail(x, "field selection on %v", a.Ty)
	}
	return Val{T: fmt.Sprintf("(%s %s)", e.sorts().fieldAcc(e.sorts().sortOf(t), st, fi), a.T), Ty: st.Field(fi).Type()}
}

func (fg *FG) fieldLoc(base *Loc, structTy types.Type, st *types.Struct, fi int) *Loc {
	if base.Kind == LObj {
		fam, srt := fg.fieldFamily(structTy, st, fi)
		fg.heapSort[fam] = srt
		return &Loc{Kind: LField, Heap: fam, Ref: base.Ref, Ty: st.Field(fi).Type()}
	}
	return base.withPath(PathStep{Field: fi, Struct: structTy}, st.Field(fi).Type())
}

func (e *Env) sel(x *SExpr) Val {
	// package-qualified name?
	if x.A.Kind == SIdent {
		if _, isVar := e.vars[x.A.Name]; !isVar {
			isLocal := false
			if e.local != nil {
				_, isLocal = e.local(x.A.Name)
			}
			if !isLocal {
				if p := e.fg.g.findPkg(e.pkg, x.A.Name); p != nil && (e.pkg == nil || e.pkg.Scope().Lookup(x.A.Name) == nil) {
					o := p.Scope().Lookup(x.Name)
					switch oo := o.(type) {
					case *types.Const:
						return e.constVal(oo)
					case *types.Var:
						return Val{T: e.fg.globalConst(p.Name(), x.Name, oo.Type()), Ty: oo.Type()}
					case *types.Func:
						return Val{T: e.fg.funcConst(p.Name() + "." + x.Name), Ty: oo.Type()}
					}
					e.fail(x, "unknown qualified name %s.%s", x.A.Name, x.Name)
				}
			}
		}
	}
	a := e.tr(x.A)
	// pseudo-fields on slices for specs
	if a.Ty != nil {
		if _, isSl := a.Ty.Underlying().(*types.Slice); isSl {
			switch x.Name {
			case "arr", "off":
				return intVal(fmt.Sprintf("(s.%s %s)", x.Name, a.T))
			}
		}
	} else if a.Sort == "Slice" {
		switch x.Name {
		case "arr", "off", "len", "cap":
			return intVal(fmt.Sprintf("(s.%s %s)", x.Name, a.T))
		}
	}
	// a ghost field on a struct-VALUED field (w.wg.waited): the ghost hangs on the interior address
	// of that field inside its object
	if a.Ty != nil && x.A.Kind == SSel {
		if st, isS := structOf(a.Ty); isS {
			if _, isPtr := types.Unalias(a.Ty).Underlying().(*types.Pointer); !isPtr {
				real := false
				for i := 0; i < st.NumFields(); i++ {
					if st.Field(i).Name() == x.Name {
						real = true
					}
				}
				if gty, ok := e.fg.g.ct.GhostFields["any."+x.Name]; ok && !real {
					loc := e.fg.specLoc(x.A, e)
					if loc != nil {
						t, srt := e.resolveType(gty)
						if t != nil {
							srt = e.sorts().sortOf(t)
						}
						fam := "G_any_" + sanitize(x.Name)
						e.fg.heapSort[fam] = "(Array Int " + srt + ")"
						l := &Loc{Kind: LGhost, Heap: fam, Ref: e.fg.interiorRef(loc), Ty: t, GSort: srt}
						return Val{T: e.fg.load(e.st, l), Ty: t, Sort: srt}
					}
				}
			}
		}
	}
	return e.selVal(x, a, x.Name)
}

func (e *Env) index(x *SExpr) Val {
	a := e.tr(x.A)
	i := e.tr(x.B)
	fg := e.fg
	if a.Ty == nil {
		// spec array sort "(Array K V)"
		if strings.HasPrefix(a.Sort, "(Array ") {
			_, vs := splitArraySort(a.Sort)
			// values of a struct sort keep their Go type so that fields can be selected
			return Val{T: fmt.Sprintf("(select %s %s)", a.T, i.T), Sort: vs, Ty: e.sorts().goTypeOf[vs]}
		}
		e.fail(x, "indexing spec sort %s", a.Sort)
	}
	switch u := types.Unalias(a.Ty).Underlying().(type) {
	case *types.Slice:
		fam, srt := fg.elemFamily(u.Elem())
		fg.heapSort[fam] = srt
		idx := e.absIndex(a.T, i.T)
		return Val{T: fmt.Sprintf("(select (select %s (s.arr %s)) %s)", fg.heap(e.st, fam, srt), a.T, idx), Ty: u.Elem()}
	case *types.Array:
		return Val{T: fmt.Sprintf("(select %s %s)", a.T, i.T), Ty: u.Elem()}
	case *types.Basic:
		if u.Info()&types.IsString != 0 {
			return Val{T: fmt.Sprintf("(strat %s %s)", a.T, i.T), Ty: types.Typ[types.Uint8]}
		}
	case *types.Map:
		mv, _ := fg.mapFamilies(u)
		return Val{T: fmt.Sprintf("(select (select %s %s) %s)", fg.heap(e.st, mv, ""), a.T, i.T), Ty: u.Elem()}
	case *types.Pointer:
		if arr, ok := u.Elem().Underlying().(*types.Array); ok {
			l := fg.locOf(a)
			l2 := *l
			if l.Kind == LElem && l.Idx == "" {
				l2.Idx = i.T
				l2.Ty = arr.Elem()
			} else {
				l2 = *l.withPath(PathStep{Index: i.T}, arr.Elem())
			}
			return Val{T: fg.load(e.st, &l2), Ty: arr.Elem()}
		}
	}
	e.fail(x, "unsupported index base type %v", a.Ty)
	return Val{}
}

func splitArraySort(s string) (string, string) {
	// "(Array K V)" with possibly nested sorts
	inner := strings.TrimSuffix(strings.TrimPrefix(s, "(Array "), ")")
	depth := 0
	for i := 0; i < len(inner); i++ {
		switch inner[i] {
		case '(':
			depth++
		case ')':
			depth--
		case ' ':
			if depth == 0 {
				return inner[:i], inner[i+1:]
			}
		}
	}
	return inner, ""
}

// absIndex computes off+i; when i has the form (- X off) produced by the quantifier rewriting it returns X.
func (e *Env) absIndex(sl, i string) string {
	off := fmt.Sprintf("(s.off %s)", sl)
	if strings.HasPrefix(i, "(- ") && strings.HasSuffix(i, " "+off+")") {
		return strings.TrimSuffix(strings.TrimPrefix(i, "(- "), " "+off+")")
	}
	return fmt.Sprintf("(+ %s %s)", off, i)
}

func (e *Env) slice(x *SExpr) Val {
	a := e.tr(x.A)
	if a.Ty == nil {
		e.fail(x, "slicing spec sort")
	}
	if _, ok := a.Ty.Underlying().(*types.Slice); !ok {
		e.fail(x, "slicing non-slice in spec")
	}
	lo := "0"
	if x.B != nil {
		lo = e.tr(x.B).T
	}
	hi := fmt.Sprintf("(s.len %s)", a.T)
	if x.C != nil {
		hi = e.tr(x.C).T
	}
	return Val{T: fmt.Sprintf("(mk-slice (s.arr %s) (+ (s.off %s) %s) (- %s %s) (- (s.cap %s) %s))", a.T, a.T, lo, hi, lo, a.T, lo), Ty: a.Ty}
}

func (e *Env) call(x *SExpr) Val {
	fg := e.fg
	if x.A.Kind == SIdent {
		name := x.A.Name
		_, shadow := e.vars[name]
		if !shadow {
			switch name {
			case "len", "cap":
				a := e.tr(x.Args[0])
				if a.Ty == nil {
					if a.Sort == "Slice" {
						return intVal(fmt.Sprintf("(s.%s %s)", name, a.T))
					}
					e.fail(x, "len of spec sort")
				}
				switch u := types.Unalias(a.Ty).Underlying().(type) {
				case *types.Slice:
					return intVal(fmt.Sprintf("(s.%s %s)", name, a.T))
				case *types.Basic:
					return intVal(fmt.Sprintf("(strlen %s)", a.T))
				case *types.Array:
					return intVal(fmt.Sprint(u.Len()))
				case *types.Map:
					_, ml := fg.mapFamilies(u)
					return intVal(fmt.Sprintf("(select %s %s)", fg.heap(e.st, ml, ""), a.T))
				case *types.Chan:
					fam := "CH_" + name
					fg.heapSort[fam] = "(Array Int Int)"
					return intVal(fmt.Sprintf("(select %s %s)", fg.heap(e.st, fam, "(Array Int Int)"), a.T))
				}
				e.fail(x, "len of %v", a.Ty)
			case "int", "int64", "int32", "uint64", "uint32", "uint", "uint8", "byte", "int8", "int16", "uint16":
				a := e.tr(x.Args[0])
				t := types.Universe.Lookup(name).Type()
				return Val{T: a.T, Ty: t}
			case "string":
				a := e.tr(x.Args[0])
				if a.sortIn(e.sorts()) == "Str" {
					return Val{T: a.T, Ty: types.Typ[types.String]}
				}
				if a.sortIn(e.sorts()) == "Slice" {
					return Val{T: fg.bytesToStr(e.st, a.T), Ty: types.Typ[types.String]}
				}
				e.fail(x, "string() of %v", a.Ty)
			case "fresh":
				// fresh(p): p was allocated after function entry
				a := e.tr(x.Args[0])
				ref := a.T
				if a.sortIn(e.sorts()) == "Slice" {
					ref = fmt.Sprintf("(s.arr %s)", a.T)
				}
				if a.sortIn(e.sorts()) == "Iface" {
					ref = fmt.Sprintf("(i.val %s)", a.T)
				}
				return boolVal(fmt.Sprintf("(>= %s %s)", ref, fg.heap(e.oldOrCur(), "$alloc", "Int")))
			case "allocated":
				a := e.tr(x.Args[0])
				ref := a.T
				if a.sortIn(e.sorts()) == "Slice" {
					ref = fmt.Sprintf("(s.arr %s)", a.T)
				}
				if a.sortIn(e.sorts()) == "Iface" {
					ref = fmt.Sprintf("(i.val %s)", a.T)
				}
				return boolVal(fmt.Sprintf("(< %s %s)", ref, fg.heap(e.st, "$alloc", "Int")))
			case "sameSlice":
				a := e.tr(x.Args[0])
				b := e.tr(x.Args[1])
				return boolVal(fmt.Sprintf("(= %s %s)", a.T, b.T))
			case "chanClosed":
				a := e.tr(x.Args[0])
				fg.heapSort["CH_closed"] = "(Array Int Bool)"
				return boolVal(fmt.Sprintf("(select %s %s)", fg.heap(e.st, "CH_closed", "(Array Int Bool)"), a.T))
			case "isNilSlice":
				a := e.tr(x.Args[0])
				return boolVal(fmt.Sprintf("(= (s.arr %s) 0)", a.T))
			case "isFunc":
				// isFunc(f, "pkg.(*T).m"): the function value f is statically known to be that function
				// (method expressions and bound methods count: their wrappers are looked through). A static
				// fact of the program text, used in wiring assertions; false when the value is not known.
				if len(x.Args) != 2 || x.Args[1].Kind != SStr {
					e.fail(x, "isFunc(value, \"function key\")")
				}
				a := e.tr(x.Args[0])
				if a.Clo != nil && a.Clo.fn != nil {
					fn := a.Clo.fn
					k := e.fg.g.keyOf(fn)
					if k != x.Args[1].Name {
						// a thunk / bound-method wrapper: one call to the wrapped method
						name := fn.Name()
						if strings.HasSuffix(name, "$thunk") || strings.HasSuffix(name, "$bound") {
							for _, b := range fn.Blocks {
								for _, in := range b.Instrs {
									if c, ok := in.(*ssa.Call); ok {
										if cf := c.Common().StaticCallee(); cf != nil {
											k = e.fg.g.keyOf(cf)
										}
									}
								}
							}
						}
					}
					if k == x.Args[1].Name {
						return boolVal("true")
					}
					return boolVal("false")
				}
				// not statically known (e.g. the result of a call that is summarised by its contract):
				// neither true nor false - an unconstrained Boolean, so that the clause proves nothing
				// as an obligation and assumes nothing as a hypothesis
				return boolVal(e.fg.fresh("isfunc", "Bool"))
			case "typeIs":
				// typeIs(ifaceValue, T)
				a := e.tr(x.Args[0])
				t, _ := e.resolveType(x.Args[1].String())
				if tp, isTP := types.Unalias(t).(*types.TypeParam); t != nil && isTP {
					// an opaque type parameter (generic body): the same uninterpreted test a type assertion to it uses
					srt := e.sorts().sortOf(tp)
					fg.declareFun("tpis."+srt, []string{"Iface"}, "Bool")
					return boolVal(fmt.Sprintf("(tpis.%s %s)", srt, a.T))
				}
				if t != nil {
					if _, isI := types.Unalias(t).Underlying().(*types.Interface); isI {
						// an interface type: the dynamic type implements it (as the type switch / assertion does)
						return boolVal(fmt.Sprintf("(and (not (= %s %s)) (implements (i.tag %s) %s))", a.T, ifaceNil, a.T, e.sorts().typeTag(t)))
					}
				}
				return boolVal(fmt.Sprintf("(= (i.tag %s) %s)", a.T, e.sorts().typeTag(t)))
			case "bytesOf":
				a := e.tr(x.Args[0])
				if a.sortIn(e.sorts()) == "Str" {
					fg.declareFun("bytes.ofstr", []string{"Str"}, "Bytes")
					if !fg.declSet["ax.bytes.ofstr"] {
						fg.declSet["ax.bytes.ofstr"] = true
						fg.decls = append(fg.decls, "(assert (forall ((s Str)) (! (= (blen (bytes.ofstr s)) (strlen s)) :pattern ((bytes.ofstr s)))))")
						fg.decls = append(fg.decls, "(assert (forall ((s Str) (i Int)) (! (=> (and (<= 0 i) (< i (strlen s))) (= (bat (bytes.ofstr s) i) (strat s i))) :pattern ((bat (bytes.ofstr s) i)))))")
					}
					return Val{T: fmt.Sprintf("(bytes.ofstr %s)", a.T), Sort: "Bytes"}
				}
				if a.sortIn(e.sorts()) != "Slice" {
					e.fail(x, "bytesOf needs a byte slice")
				}
				fam, srt := fg.elemFamily(types.Typ[types.Uint8])
				fg.heapSort[fam] = srt
				return Val{T: fmt.Sprintf("(bytes.of (select %s (s.arr %s)) (s.off %s) (s.len %s))", fg.heap(e.st, fam, srt), a.T, a.T, a.T), Sort: "Bytes"}
			case "seqBytes":
				// seqBytes(d, lo, n): the n bytes of sequence d from position lo
				d := e.tr(x.Args[0])
				lo := e.tr(x.Args[1])
				n := e.tr(x.Args[2])
				return Val{T: fmt.Sprintf("(bytes.of %s %s %s)", d.T, lo.T, n.T), Sort: "Bytes"}
			case "rangeSeen":
				// rangeSeen(N, k): key k has already been produced by the N-th map range of the function
				// (numbered in the order the ranges start)
				n, err := strconv.Atoi(x.Args[0].String())
				if err != nil || n < 0 || n >= len(fg.ranges) {
					e.fail(x, "rangeSeen: no map range number %s (yet)", x.Args[0].String())
				}
				rng := fg.ranges[n]
				u := types.Unalias(rng.X.Type()).Underlying().(*types.Map)
				fam := "IT_seen_" + shortTypeName(u.Key())
				k := e.tr(x.Args[1])
				it := fg.val(rng)
				return boolVal(fmt.Sprintf("(select (select %s %s) %s)", fg.heap(e.st, fam, ""), it.T, k.T))
			case "blen":
				a := e.tr(x.Args[0])
				return intVal(fmt.Sprintf("(blen %s)", a.T))
			case "bat":
				a := e.tr(x.Args[0])
				i := e.tr(x.Args[1])
				return intVal(fmt.Sprintf("(bat %s %s)", a.T, i.T))
			case "unfold":
				return e.tr(x.Args[0])
			case "atLoopEntry":
				// atLoopEntry(e): e evaluated in the memory state in which the loop was entered (use it on
				// expressions over variables the loop does not reassign)
				if e.loopEntry == nil {
					e.fail(x, "atLoopEntry() is only available in loop clauses")
				}
				n := *e
				n.st = e.loopEntry
				return n.tr(x.Args[0])
			case "asType":
				// asType(ifaceValue, T): the payload of an interface value viewed as type T
				a := e.tr(x.Args[0])
				t, _ := e.resolveType(x.Args[1].String())
				if t == nil {
					e.fail(x, "asType needs a Go type")
				}
				if tp, isTP := types.Unalias(t).(*types.TypeParam); isTP {
					srt := e.sorts().sortOf(tp)
					fg.declareFun("tpcast."+srt, []string{"Iface"}, srt)
					return Val{T: fmt.Sprintf("(tpcast.%s %s)", srt, a.T), Ty: t}
				}
				return Val{T: e.sorts().unbox(e.sorts().sortOf(t), fmt.Sprintf("(i.val %s)", a.T)), Ty: t}
			case "prev":
				if e.prev == nil {
					e.fail(x, "prev() is only available in loop step clauses")
				}
				pe := *e.prev
				pe.vars = map[string]Val{}
				for k, v := range e.prev.vars {
					pe.vars[k] = v
				}
				// quantifier-bound variables of the enclosing formula stay visible
				for k, v := range e.vars {
					if _, isParam := e.fg.params[k]; !isParam {
						if _, has := pe.vars[k]; !has {
							pe.vars[k] = v
						}
					}
				}
				return pe.tr(x.Args[0])
			case "has":
				m := e.tr(x.Args[0])
				mt, ok := types.Unalias(m.Ty).Underlying().(*types.Map)
				if !ok {
					e.fail(x, "has() needs a map")
				}
				k := e.coerce(e.tr(x.Args[1]), mt.Key())
				mv, _ := fg.mapFamilies(mt)
				return boolVal(fmt.Sprintf("(and (not (= %s 0)) (select (select %s %s) %s))", m.T, fg.heap(e.st, mapPresence(mv), ""), m.T, k.T))
			}
			if sf, ok := fg.g.ct.Funcs[name]; ok {
				var args []Val
				for _, a := range x.Args {
					args = append(args, e.tr(a))
				}
				return e.applySpecFunc(x, sf, args)
			}
			if lc, ok := fg.g.ct.C["lemma."+name]; ok {
				var args []Val
				for _, a := range x.Args {
					args = append(args, e.tr(a))
				}
				return e.useLemma(x, lc, args)
			}
		}
	}
	// conversion to named type / slice type: T(x)
	if x.A.Kind == SIdent && strings.HasPrefix(x.A.Name, "[]") && len(x.Args) == 1 {
		a := e.tr(x.Args[0])
		t, _ := e.resolveType(x.A.Name)
		return Val{T: a.T, Ty: t}
	}
	if x.A.Kind == SSel || x.A.Kind == SIdent {
		if t := e.tryType(x.A); t != nil && len(x.Args) == 1 {
			a := e.coerce(e.tr(x.Args[0]), t)
			return Val{T: a.T, Ty: t}
		}
	}
	// call of a function-typed value
	f := e.tr(x.A)
	if f.Ty != nil {
		if sig, ok := f.Ty.Underlying().(*types.Signature); ok {
			var args []Val
			for i, a := range x.Args {
				args = append(args, e.coerce(e.tr(a), sig.Params().At(i).Type()))
			}
			return fg.applyFuncValue(f, sig, args)
		}
	}
	e.fail(x, "unsupported call in spec")
	return Val{}
}

func (e *Env) oldOrCur() *State {
	if e.old != nil {
		return e.old
	}
	return e.st
}

func (e *Env) tryType(x *SExpr) types.Type {
	defer func() { recover() }()
	var t types.Type
	func() {
		defer func() {
			if r := recover(); r != nil {
				t = nil
			}
		}()
		s := x.String()
		if x.Kind == SIdent {
			if _, ok := e.vars[s]; ok {
				return
			}
			if e.pkg != nil {
				if o := e.pkg.Scope().Lookup(s); o != nil {
					if tn, ok := o.(*types.TypeName); ok {
						t = tn.Type()
					}
				}
			}
			return
		}
		if x.Kind == SSel && x.A.Kind == SIdent {
			if p := e.fg.g.findPkg(e.pkg, x.A.Name); p != nil {
				if o := p.Scope().Lookup(x.Name); o != nil {
					if tn, ok := o.(*types.TypeName); ok {
						t = tn.Type()
					}
				}
			}
		}
	}()
	return t
}

// applyFuncValue models a call of a pure function value as an uninterpreted application.
func (fg *FG) applyFuncValue(f Val, sig *types.Signature, args []Val) Val {
	if sig.Results().Len() != 1 {
		fg.fail("pure function value must have exactly one result")
	}
	var as []string
	sorts := []string{"Int"}
	as = append(as, f.T)
	for _, a := range args {
		sorts = append(sorts, a.sortIn(fg.sorts))
		as = append(as, a.T)
	}
	rt := sig.Results().At(0).Type()
	rs := fg.sorts.sortOf(rt)
	name := "apply." + sanitize(strings.Join(sorts[1:], "_")) + "." + sanitize(rs)
	fg.declareFun(name, sorts, rs)
	return Val{T: fmt.Sprintf("(%s %s)", name, strings.Join(as, " ")), Ty: rt}
}

func (e *Env) applySpecFunc(x *SExpr, sf *SpecFunc, args []Val) Val {
	fg := e.fg
	if len(args) != len(sf.Params) {
		e.fail(x, "spec function %s expects %d arguments", sf.Name, len(sf.Params))
	}
	if e.depth > 12 {
		e.fail(x, "spec function expansion too deep (recursive definition?)")
	}
	n := e.child()
	n.depth = e.depth + 1
	// resolve param types in the package of the spec function's file
	penv := *e
	if p := fg.g.pkgByName(sf.Pkg); p != nil {
		penv.pkg = p
		n.pkg = p
	}
	n.local = nil
	if sf.Body == nil {
		// uninterpreted function over the given sorts (heap independent)
		var sorts, as []string
		mangle := ""
		for i, p := range sf.Params {
			var t types.Type
			var srt string
			if p.Type == "any" {
				srt = args[i].sortIn(fg.sorts)
				mangle += "." + sanitize(srt)
			} else {
				t, srt = penv.resolveType(p.Type)
			}
			if t != nil {
				srt = fg.sorts.sortOf(t)
				args[i] = e.coerce(args[i], t)
			}
			sorts = append(sorts, srt)
			as = append(as, args[i].T)
		}
		rt, rsrt := penv.resolveType(sf.Ret)
		if rt != nil {
			rsrt = fg.sorts.sortOf(rt)
		}
		name := "sf." + sanitize(sf.Name) + mangle
		if !fg.declSet[name] {
			fg.declareFun(name, sorts, rsrt)
			for _, ax := range sf.Axioms {
				aenv := &Env{fg: fg, vars: map[string]Val{}, st: fg.entrySt, pkg: penv.pkg}
				fg.decls = append(fg.decls, "(assert "+aenv.tr(ax.E).T+")")
				fg.g.noteAssumption("axiom on " + sf.Name + ": " + ax.Src)
			}
		}
		if len(as) == 0 {
			return Val{T: name, Ty: rt, Sort: rsrt}
		}
		return Val{T: fmt.Sprintf("(%s %s)", name, strings.Join(as, " ")), Ty: rt, Sort: rsrt}
	}
	for i, p := range sf.Params {
		t, srt := penv.resolveType(p.Type)
		a := args[i]
		if t != nil {
			a = e.coerce(a, t)
			if a.Ty == nil || isUntyped(a.Ty) {
				a.Ty = t
			}
		} else if a.Ty == nil && a.Sort == "" {
			a.Sort = srt
		}
		n.vars[p.Name] = a
	}
	v := n.tr(sf.Body)
	if sf.Ret != "" && sf.Ret != "bool" {
		if rt, _ := penv.resolveType(sf.Ret); rt != nil {
			v = e.coerce(v, rt)
		}
	}
	return v
}

// useLemma instantiates a proved lemma: (requires ==> ensures) at the given terms.
func (e *Env) useLemma(x *SExpr, lc *Contract, args []Val) Val {
	fg := e.fg
	if len(args) != len(lc.Params) {
		e.fail(x, "lemma %s expects %d arguments", lc.Key, len(lc.Params))
	}
	n := e.child()
	n.local = nil
	if p := fg.g.pkgByName(lc.Pkg); p != nil {
		n.pkg = p
	}
	for i, p := range lc.Params {
		t, srt := n.resolveType(lc.ParamTys[i])
		a := args[i]
		if t != nil {
			a = e.coerce(a, t)
		} else if a.Ty == nil && a.Sort == "" {
			a.Sort = srt
		}
		n.vars[p] = a
	}
	var pre, post []string
	for _, c := range lc.Requires {
		pre = append(pre, n.tr(c.E).T)
	}
	for _, c := range lc.Ensures {
		post = append(post, n.tr(c.E).T)
	}
	fg.g.noteLemmaUse(lc.Key)
	return boolVal(fmt.Sprintf("(=> %s %s)", smtAnd(pre), smtAnd(post)))
}

func smtAnd(xs []string) string {
	if len(xs) == 0 {
		return "true"
	}
	if len(xs) == 1 {
		return xs[0]
	}
	return "(and " + strings.Join(xs, " ") + ")"
}

func smtOr(xs []string) string {
	if len(xs) == 0 {
		return "false"
	}
	if len(xs) == 1 {
		return xs[0]
	}
	return "(or " + strings.Join(xs, " ") + ")"
}

func (e *Env) quant(x *SExpr) Val {
	fg := e.fg
	n := e.child()
	var binders, guards []string
	for _, v := range x.Vars {
		t, srt := e.resolveType(v.Type)
		if t != nil {
			srt = fg.sorts.sortOf(t)
		}
		fg.nfresh++
		bn := fmt.Sprintf("q.%s!%d", sanitize(v.Name), fg.nfresh)
		binders = append(binders, fmt.Sprintf("(%s %s)", bn, srt))
		term := bn
		// absolute-position rewriting for slice indices
		if srt == "Int" && (t == nil || isInteger(t)) {
			if sl := findSliceIndexedBy(x.A, v.Name); sl != nil && !mentions(sl, v.Name) {
				func() {
					defer func() {
						if r := recover(); r != nil {
							if _, ok := r.(genErr); !ok {
								panic(r)
							}
						}
					}()
					sv := n.tr(sl)
					if sv.Ty != nil {
						if _, ok := sv.Ty.Underlying().(*types.Slice); ok {
							term = fmt.Sprintf("(- %s (s.off %s))", bn, sv.T)
						}
					}
				}()
			}
		}
		n.vars[v.Name] = Val{T: term, Ty: t, Sort: srt}
		if t != nil {
			if f := fg.sorts.rangeFact(t, term); f != "" {
				guards = append(guards, f)
			}
		}
	}
	body := n.tr(x.A)
	bt := body.T
	var bnames []string
	for _, b := range binders {
		bnames = append(bnames, strings.Fields(strings.Trim(b, "()"))[0])
	}
	if x.Op == "forall" {
		if len(guards) > 0 {
			bt = fmt.Sprintf("(=> %s %s)", smtAnd(guards), bt)
		}
	} else {
		if len(guards) > 0 {
			bt = fmt.Sprintf("(and %s %s)", smtAnd(guards), bt)
		}
	}
	pats := inferPatterns(bt, bnames)
	if len(pats) > 0 {
		bt = fmt.Sprintf("(! %s %s)", bt, strings.Join(pats, " "))
	}
	return boolVal(fmt.Sprintf("(%s (%s) %s)", x.Op, strings.Join(binders, " "), bt))
}

func mentions(x *SExpr, name string) bool {
	if x == nil {
		return false
	}
	if x.Kind == SIdent && x.Name == name {
		return true
	}
	if mentions(x.A, name) || mentions(x.B, name) || mentions(x.C, name) {
		return true
	}
	for _, a := range x.Args {
		if mentions(a, name) {
			return true
		}
	}
	return false
}

// findSliceIndexedBy finds an expression s such that s[name] occurs in x.
func findSliceIndexedBy(x *SExpr, name string) *SExpr {
	if x == nil {
		return nil
	}
	if x.Kind == SIndex && x.B.Kind == SIdent && x.B.Name == name {
		if x.A.Kind != SQuant {
			return x.A
		}
	}
	if x.Kind == SQuant {
		for _, v := range x.Vars {
			if v.Name == name {
				return nil
			}
		}
	}
	for _, c := range []*SExpr{x.A, x.B, x.C} {
		if r := findSliceIndexedBy(c, name); r != nil {
			return r
		}
	}
	for _, a := range x.Args {
		if r := findSliceIndexedBy(a, name); r != nil {
			return r
		}
	}
	return nil
}
