package main

import (
	"fmt"
	"go/types"
	"sort"
	"strings"
)

// ifaceCoverage describes, for the contract of an interface method used at a dynamic call, how far
// it is proved rather than assumed: which types of the loaded repository packages implement the
// interface, and for which of them a "refines" declaration exists (its obligations are checked under
// the key refines:I:M).
func (g *Gen) ifaceCoverage(key string) string {
	parts := strings.Split(key, ".")
	if len(parts) != 3 || strings.ContainsAny(key, "<[") {
		return "interface contract (dynamic dispatch, ASSUMED for every implementation): " + key
	}
	pkg := g.pkgByName(parts[0])
	if pkg == nil {
		return "interface contract (dynamic dispatch, ASSUMED for every implementation): " + key
	}
	obj := pkg.Scope().Lookup(parts[1])
	if obj == nil {
		return "interface contract (dynamic dispatch, ASSUMED for every implementation): " + key
	}
	it, ok := obj.Type().Underlying().(*types.Interface)
	if !ok {
		return "interface contract (dynamic dispatch, ASSUMED for every implementation): " + key
	}
	refined := map[string]bool{}
	for _, rf := range g.ct.Refines {
		if rf.Iface == key {
			refined[rf.Impl] = true
		}
	}
	var done, missing []string
	for path, p := range g.byPath {
		if !strings.HasPrefix(path, repoModule) {
			continue
		}
		for _, n := range p.Scope().Names() {
			tn, ok := p.Scope().Lookup(n).(*types.TypeName)
			if !ok || tn.IsAlias() {
				continue
			}
			if _, isI := tn.Type().Underlying().(*types.Interface); isI {
				continue
			}
			if named, ok := tn.Type().(*types.Named); ok && named.TypeParams().Len() > 0 {
				continue
			}
			var recv string
			switch {
			case types.Implements(tn.Type(), it):
				recv = "(" + n + ")"
			case types.Implements(types.NewPointer(tn.Type()), it):
				recv = "(*" + n + ")"
			default:
				continue
			}
			// the method may be promoted from an embedded field: name it by the declaring receiver
			mkey := p.Name() + "." + recv + "." + parts[2]
			if ms := types.NewMethodSet(types.NewPointer(tn.Type())); ms != nil {
				if sel := ms.Lookup(p, parts[2]); sel != nil {
					if fn := g.prog.FuncValue(sel.Obj().(*types.Func)); fn != nil {
						mkey = g.keyOf(fn)
					}
				}
			}
			if refined[mkey] {
				done = append(done, mkey)
			} else {
				missing = append(missing, mkey)
			}
		}
	}
	sort.Strings(done)
	sort.Strings(missing)
	done, missing = uniq(done), uniq(missing)
	s := fmt.Sprintf("interface contract %s (dynamic dispatch): proved for %d implementation(s) by refinement obligations", key, len(done))
	if len(done) > 0 {
		s += " [" + strings.Join(done, ", ") + "]"
	}
	if len(missing) > 0 {
		s += fmt.Sprintf("; ASSUMED for %d implementation(s) in the loaded packages [%s]", len(missing), strings.Join(missing, ", "))
	}
	s += "; implementations outside the loaded packages: assumed absent"
	return s
}

func uniq(xs []string) []string {
	var out []string
	for i, x := range xs {
		if i == 0 || x != xs[i-1] {
			out = append(out, x)
		}
	}
	return out
}

// genRefine generates the obligations of "refines I by M": for a receiver whose dynamic type is M's
// receiver type, and under I's preconditions, (1) M's preconditions hold, (2) what M may modify is
// within what I may modify, (3) M's postconditions imply I's. Clauses of I tagged [calllog] describe
// the ghost call log kept by the call rule itself and are skipped.
func genRefine(g *Gen, rf Refine) (fg *FG, err error) {
	ic := g.ct.C["iface."+rf.Iface]
	if ic == nil {
		ic = g.ct.C[rf.Iface]
	}
	mc := g.ct.C[rf.Impl]
	fn := g.fnIndex[rf.Impl]
	key := "refines:" + rf.Iface + ":" + rf.Impl
	if ic == nil || mc == nil || fn == nil {
		return nil, fmt.Errorf("%s: interface contract, method contract or method not found", key)
	}
	fg = newFG(g, fn, ic)
	fg.name = key
	defer func() {
		if r := recover(); r != nil {
			if ge, ok := r.(genErr); ok {
				err = fmt.Errorf("%s: %s", key, ge.msg)
				return
			}
			panic(r)
		}
	}()
	st := &State{heaps: map[string]string{}}
	fg.heapSort["$alloc"] = "Int"
	fg.alloc0 = fg.heap(st, "$alloc", "Int")
	fg.assume(fmt.Sprintf("(> %s 0)", fg.alloc0))
	fg.entrySt = st.clone()
	fg.curBlock = 0
	fg.R[0] = "true"
	var pkg *types.Package
	if p := g.pkgOfFn(fn); p != nil {
		pkg = p
	}
	if len(ic.Params) != len(fn.Params) {
		fg.fail("the interface contract names %d parameters (receiver first), the method has %d", len(ic.Params), len(fn.Params))
	}
	var args []Val
	for i, p := range fn.Params {
		name := ic.Params[i]
		if i == 0 {
			// the receiver: an interface value whose dynamic type is the method's receiver type
			n := "p." + sanitize(name)
			fg.declare(n, "Iface")
			fg.assume(fmt.Sprintf("(and (not (= %s %s)) (= (i.tag %s) %s))", n, ifaceNil, n, fg.sorts.typeTag(p.Type())))
			iv := Val{T: n, Sort: "Iface"}
			fg.params[name] = iv
			rv := Val{T: fg.sorts.unbox(fg.sorts.sortOf(p.Type()), fmt.Sprintf("(i.val %s)", n)), Ty: p.Type()}
			fg.assumeTyped(rv, st)
			args = append(args, rv)
			continue
		}
		n := "p." + sanitize(name)
		fg.declare(n, fg.sorts.sortOf(p.Type()))
		v := Val{T: n, Ty: p.Type()}
		fg.params[name] = v
		fg.assumeTyped(v, st)
		args = append(args, v)
	}
	env := fg.envAt(st, pkg, nil)
	if p := g.pkgByName(ic.Pkg); p != nil {
		env.pkg = p
	}
	for _, r := range ic.Requires {
		fg.assume(env.tr(r.E).T)
	}
	for _, r := range rf.Assuming {
		fg.assume(env.tr(r.E).T)
	}
	fg.modset = fg.evalModifies(ic, env)
	fg.cover("cover:requires", "true")
	// the method, by its own contract
	results := fg.applyContract(st, mc, fn, fn.Signature, args, nil, nil)
	// the interface's postconditions
	penv := fg.envAt(st, pkg, nil)
	penv.pkg = env.pkg
	rn := resultNames(ic, fn.Signature)
	for i, r := range results {
		if i < len(rn) {
			penv.vars[rn[i]] = r
			if len(results) == 1 {
				penv.vars["result"] = r
			}
		}
	}
	for k, q := range ic.Ensures {
		if strings.Contains(q.Tag, "calllog") {
			continue
		}
		t := penv.tr(q.E)
		fg.oblig("post", fmt.Sprintf("refine:%s", clauseName(q, k)), q.Tag, "true", t.T, q.Src, fmt.Sprintf("%s:%d", q.File, q.Line))
	}
	return fg, nil
}
