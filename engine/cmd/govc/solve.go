package main

import (
	"bytes"
	"context"
	"fmt"
	"os"
	"os/exec"
	"path/filepath"
	"strings"
	"sync"
	"time"
)

// render produces the SMT-LIB text of one obligation: prelude, all declarations, every assumption
// and definition that precedes the obligation in program order, then the negated goal.
func (o *Oblig) render(forCVC5 bool) string { return o.renderV(forCVC5, false) }

func (o *Oblig) renderV(forCVC5 bool, mbqi bool) string {
	fg := o.fg
	var sb strings.Builder
	sb.WriteString("; obligation " + o.Name + " of " + o.Fn + "\n")
	if o.Src != "" {
		sb.WriteString("; clause: " + strings.ReplaceAll(o.Src, "\n", " ") + "\n")
	}
	if forCVC5 {
		sb.WriteString("(set-logic ALL)\n")
		for _, l := range strings.Split(prelude, "\n") {
			if strings.HasPrefix(l, "(set-option :smt.") || strings.HasPrefix(l, "(set-option :auto_config") {
				continue
			}
			sb.WriteString(l + "\n")
		}
	} else if mbqi {
		for _, l := range strings.Split(prelude, "\n") {
			if strings.HasPrefix(l, "(set-option :smt.") || strings.HasPrefix(l, "(set-option :auto_config") {
				continue
			}
			sb.WriteString(l + "\n")
		}
	} else {
		sb.WriteString(prelude)
	}
	for _, d := range fg.sorts.decls {
		sb.WriteString(d + "\n")
	}
	for _, d := range fg.decls {
		sb.WriteString(d + "\n")
	}
	for i := 0; i < o.seq; i++ {
		it := fg.items[i]
		if it.kind == itOblig {
			continue
		}
		if it.group != "" && it.group != groupOf(o.Tag) {
			continue
		}
		sb.WriteString(it.text + "\n")
	}
	if o.Cover {
		sb.WriteString(fmt.Sprintf("(assert %s)\n", o.Goal))
	} else {
		sb.WriteString(fmt.Sprintf("(assert (and %s (not %s)))\n", o.Guard, o.Goal))
	}
	sb.WriteString("(check-sat)\n")
	return sb.String()
}

type solverSpec struct {
	name string
	cmd  func(file string, timeoutS int, seed int) []string
}

var solvers = []solverSpec{
	{"z3-5.1.0", func(f string, t, seed int) []string {
		return []string{"z3-new", fmt.Sprintf("-T:%d", t), fmt.Sprintf("smt.random_seed=%d", seed), fmt.Sprintf("sat.random_seed=%d", seed), f}
	}},
	{"z3-4.8.12", func(f string, t, seed int) []string {
		return []string{"/usr/bin/z3", fmt.Sprintf("-T:%d", t), fmt.Sprintf("smt.random_seed=%d", seed), f}
	}},
	{"cvc5-1.0", func(f string, t, seed int) []string {
		return []string{"cvc5", fmt.Sprintf("--tlimit=%d", t*1000), fmt.Sprintf("--seed=%d", seed), f}
	}},
}

func runSolver(s solverSpec, file string, timeoutS, seed int) (string, string, float64) {
	return runSolverCtx(context.Background(), s, file, timeoutS, seed)
}

func runSolverCtx(parent context.Context, s solverSpec, file string, timeoutS, seed int) (string, string, float64) {
	ctx, cancel := context.WithTimeout(parent, time.Duration(timeoutS+2)*time.Second)
	defer cancel()
	args := s.cmd(file, timeoutS, seed)
	cmd := exec.CommandContext(ctx, args[0], args[1:]...)
	var out bytes.Buffer
	cmd.Stdout = &out
	cmd.Stderr = &out
	t0 := time.Now()
	cmd.Run()
	dt := time.Since(t0).Seconds()
	txt := out.String()
	first := strings.TrimSpace(strings.SplitN(txt, "\n", 2)[0])
	switch first {
	case "unsat", "sat", "unknown":
		return first, txt, dt
	case "timeout":
		return "timeout", txt, dt
	}
	if ctx.Err() != nil {
		return "timeout", txt, dt
	}
	if strings.Contains(txt, "error") || strings.Contains(txt, "Error") {
		return "error", txt, dt
	}
	return "unknown", txt, dt
}

// discharge runs the portfolio on one obligation.
// quickFail lists stable obligation names recorded as known findings: they get the first solver stage only.
var quickFail = map[string]bool{}

func discharge(o *Oblig, dir string, idx int, tier string, seed int) {
	base := filepath.Join(dir, fmt.Sprintf("%04d_%s", idx, sanitize(o.Fn+"_"+o.Name)))
	if len(base) > 200 {
		base = base[:200]
	}
	file := base + ".smt2"
	txt := o.render(false)
	os.WriteFile(file, []byte(txt), 0o644)
	o.File = file
	if len(txt) > 2_000_000 {
		o.Result = "toolerror"
		o.RawOut = "query exceeds the size cap"
		return
	}
	timeout := 10
	if tier == "thorough" {
		timeout = 60
	}
	want := "unsat"
	// first: z3-new quick attempt
	res, out, dt := runSolver(solvers[0], file, timeout, seed)
	o.TimeS += dt
	o.Solver = solvers[0].name
	o.Result = res
	o.RawOut = out
	if o.Cover {
		// only "unsat" is bad for cover queries; the contract's hypotheses (cover:requires) are also
		// checked with model-based instantiation, which finds inconsistent axioms that E-matching misses
		if res != "unsat" && o.Name == "cover:requires" {
			mfile := base + ".mbqi.smt2"
			os.WriteFile(mfile, []byte(o.renderV(false, true)), 0o644)
			ct := 5
			if tier == "thorough" {
				ct = 30
			}
			rm, outm, dtm := runSolver(solvers[0], mfile, ct, seed)
			o.TimeS += dtm
			if rm == "unsat" {
				o.Result, o.Solver, o.RawOut = rm, solvers[0].name+"(mbqi)", outm
			}
		}
		return
	}
	if res == want {
		if tier == "thorough" {
			// cross-check with the second z3
			r2, out2, dt2 := runSolver(solvers[1], file, timeout, seed)
			o.TimeS += dt2
			if r2 == "sat" {
				o.Result = "disagree"
				o.RawOut = out + "\n--- z3-4.8.12:\n" + out2
			} else if r2 == "unsat" {
				o.Solver += "+z3-4.8.12"
			}
		}
		return
	}
	if res == "sat" {
		// confirm with a model
		return
	}
	if quickFail[stableName(o)] && tier != "thorough" {
		return
	}
	// E-matching is sensitive to term ordering: a quick "unknown" is retried with other seeds
	if res == "unknown" && dt < 5 {
		for k := 1; k <= 8; k++ {
			sd := seed + k
			rs, outs, dts := runSolver(solvers[0], file, timeout, sd)
			o.TimeS += dts
			if rs == "unsat" {
				o.Result, o.Solver, o.RawOut = rs, fmt.Sprintf("%s(seed +%d)", solvers[0].name, k), outs
				return
			}
			if dts >= 5 {
				break
			}
		}
	}
	// unknown / timeout: E-matching was not enough. Race, in parallel: z3 with model-based quantifier
	// instantiation, z3 with two more seeds and a longer limit, z3 4.8.12 and cvc5; the first "unsat"
	// (or "sat") wins and the others are cancelled.
	mfile := base + ".mbqi.smt2"
	os.WriteFile(mfile, []byte(o.renderV(false, true)), 0o644)
	cfile := base + ".cvc5.smt2"
	os.WriteFile(cfile, []byte(o.render(true)), 0o644)
	long := timeout * 3
	type attempt struct {
		label string
		spec  solverSpec
		file  string
		seed  int
	}
	attempts := []attempt{
		{solvers[0].name + "(mbqi)", solvers[0], mfile, seed},
		{solvers[0].name + "(long, seed +11)", solvers[0], file, seed + 11},
		{solvers[0].name + "(long, seed +12)", solvers[0], file, seed + 12},
		{solvers[1].name, solvers[1], file, seed},
		{solvers[2].name, solvers[2], cfile, seed},
	}
	type outcome struct {
		label, res, out string
		dt              float64
	}
	ctx, cancel := context.WithCancel(context.Background())
	defer cancel()
	ch := make(chan outcome, len(attempts))
	for _, a := range attempts {
		go func(a attempt) {
			r, out, d := runSolverCtx(ctx, a.spec, a.file, long, a.seed)
			ch <- outcome{a.label, r, out, d}
		}(a)
	}
	var raw []string
	var maxDt float64
	for range attempts {
		oc := <-ch
		if oc.dt > maxDt {
			maxDt = oc.dt
		}
		if oc.res == "unsat" || oc.res == "sat" {
			o.Result, o.Solver, o.RawOut = oc.res, oc.label, oc.out
			o.TimeS += oc.dt
			return
		}
		raw = append(raw, oc.label+": "+strings.SplitN(oc.out, "\n", 2)[0])
	}
	o.TimeS += maxDt
	o.RawOut = "z3-5.1.0: " + out + "\n" + strings.Join(raw, "\n")
}

func dischargeAll(obs []*Oblig, dir string, tier string, seed int) {
	os.MkdirAll(dir, 0o755)
	var wg sync.WaitGroup
	sem := make(chan struct{}, 14)
	for i, o := range obs {
		wg.Add(1)
		sem <- struct{}{}
		go func(i int, o *Oblig) {
			defer wg.Done()
			defer func() { <-sem }()
			discharge(o, dir, i, tier, seed)
		}(i, o)
	}
	wg.Wait()
}

// getModel re-runs a failed obligation asking for a model (MBQI on) to obtain a counterexample.
func getModel(o *Oblig, timeoutS int) string {
	if o.File == "" {
		return ""
	}
	b, err := os.ReadFile(o.File)
	if err != nil {
		return ""
	}
	txt := string(b)
	txt = strings.Replace(txt, "(set-option :smt.mbqi false)", "(set-option :smt.mbqi true)\n(set-option :model.compact true)", 1)
	txt = strings.Replace(txt, "(check-sat)", "(check-sat)\n(get-model)", 1)
	mfile := strings.TrimSuffix(o.File, ".smt2") + ".model.smt2"
	os.WriteFile(mfile, []byte(txt), 0o644)
	ctx, cancel := context.WithTimeout(context.Background(), time.Duration(timeoutS+2)*time.Second)
	defer cancel()
	cmd := exec.CommandContext(ctx, "z3-new", fmt.Sprintf("-T:%d", timeoutS), mfile)
	var out bytes.Buffer
	cmd.Stdout = &out
	cmd.Stderr = &out
	cmd.Run()
	return out.String()
}
